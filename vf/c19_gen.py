"""Seeded generators for C19 (envelope specifications, constructor calls,
evaluation times).  No sc3 import.

Domain restrictions (documented domains of the shapes):
  * 'exp' only between levels of the same sign, none zero;
  * 'sqr' only with non-negative levels (square root); 'cub' with any sign;
  * curvature numbers within +-50 (exp(curve) must stay finite in the
    server's single precision, exp(88) overflows there);
  * durations are 0 (zero-length segment) or within [2**-10, 16].
Only documented shape names are generated (the table of the Env class
documentation: step, lin/linear, exp/exponential, sin/sine, wel/welch,
sqr/squared, cub/cubed, hold).

Constructor calls are generated in two steps so that other shards can put
signal placeholders (model_env.Sig) into the arguments first:
gen_ctor_kwargs(rng) -> (name, kwargs, flags) and ctor_expected(name, kwargs) ->
the documented breakpoints (pure, works symbolically).  adsr / dadsr draw
list-valued (multichannel) bias values as they do for every other "list |
float | int" parameter.
"""

ANY_SIGN_NAMES = ['step', 'lin', 'linear', 'sin', 'sine', 'wel', 'welch', 'hold']
EXP_NAMES = ['exp', 'exponential']
POW_NAMES = ['sqr', 'squared', 'cub', 'cubed']
CUB_NAMES = ['cub', 'cubed']


def gen_level(rng, cls):
    k = rng.random()
    if k < 0.35:
        x = rng.choice([0, 1, 2, 0.5, 0.25, 1.0, 0.1, 0.75, 3, 10, 100])
    elif k < 0.7:
        x = round(rng.uniform(0, 2), rng.choice([1, 2, 3]))
    else:
        x = rng.uniform(0, 100) if rng.random() < 0.3 else rng.random()
    if cls in ('pos', 'neg') and x == 0:
        x = rng.choice([1, 0.5, 0.001])
    if cls == 'neg':
        x = -x
    elif cls == 'any' and rng.random() < 0.4:
        x = -x
    return x


def gen_dur(rng, dyadic):
    if rng.random() < 0.12:
        return rng.choice([0, 0.0])
    if dyadic:
        return rng.choice([rng.randint(1, 16) / 1.0, rng.randint(1, 16),
                           rng.randint(1, 4096) / 1024.0,
                           rng.choice([0.5, 0.25, 0.125, 1.5, 2, 1])])
    return rng.choice([0.1, 0.01, 0.3, 0.02, 1 / 3, 0.7, 1.1,
                       rng.uniform(1 / 1024, 16), rng.uniform(0.001, 1)])


def gen_curve_item(rng, cls):
    names = list(ANY_SIGN_NAMES)
    if cls in ('pos', 'neg'):
        names += EXP_NAMES * 2
    if cls in ('pos', 'nonneg'):
        names += POW_NAMES
    else:
        # the cube root is defined for every sign (the class documentation
        # restricts only 'exp'); 'sqr' needs a square root and stays >= 0
        names += CUB_NAMES
    if rng.random() < 0.45:
        return rng.choice([-4, -4.0, 4, 0, 0.0, 1, -1, 2.5, -8.0, 1e-5, 30, -30,
                           50, -50.0, 1e-9, -1e-9, 1e-4, -1e-4, 9.9e-5,
                           round(rng.uniform(-10, 10), 2)])
    return rng.choice(names)


def gen_env_args(rng, cls=None, single_ok=False):
    """-> dict(levels, times, curves, release_node, loop_node, cls, dyadic,
    multichannel)"""
    cls = cls or rng.choice(['any', 'any', 'pos', 'pos', 'neg', 'nonneg'])
    if single_ok and rng.random() < 0.02:
        # one level, no segment: only the encoding is defined (the library
        # refuses to evaluate it: "Env must have at least one stage")
        lv = gen_level(rng, cls)
        multi = rng.random() < 0.3
        return dict(levels=[[lv, gen_level(rng, cls)] if multi else lv],
                    times=rng.choice([None, 1, [1, 2]]),
                    curves=rng.choice(['lin', -4, ['sin', 2]]),
                    release_node=None, loop_node=None, cls=cls, dyadic=True,
                    multichannel=multi)
    nlev = rng.choice([2, 2, 3, 3, 4, 5, rng.randint(2, 12)])
    nseg = nlev - 1
    levels = [gen_level(rng, cls) for _ in range(nlev)]
    dyadic = rng.random() < 0.6
    form = rng.choice(['scalar', 'shorter', 'equal', 'equal'])
    if form == 'scalar':
        times = gen_dur(rng, dyadic)
        if times == 0 and rng.random() < 0.8:
            times = gen_dur(rng, dyadic)
    else:
        k = nseg if form == 'equal' else rng.randint(1, nseg)
        times = [gen_dur(rng, dyadic) for _ in range(k)]
    cform = rng.choice(['name', 'number', 'list-equal', 'list-shorter',
                        'list-equal'])
    if cform == 'name':
        curves = gen_curve_item(rng, cls)
        while not isinstance(curves, str):
            curves = gen_curve_item(rng, cls)
    elif cform == 'number':
        curves = gen_curve_item(rng, cls)
        while isinstance(curves, str):
            curves = gen_curve_item(rng, cls)
    else:
        k = nseg if cform == 'list-equal' else rng.randint(1, nseg)
        curves = [gen_curve_item(rng, cls) for _ in range(k)]
    release = rng.choice([None, None, rng.randint(0, nseg - 1) if nseg else None])
    loop = None
    if release is not None and rng.random() < 0.5:
        loop = rng.randint(0, release)
    elif rng.random() < 0.05:
        loop = rng.randint(0, max(0, nseg - 1))
    if single_ok and rng.random() < 0.04:
        # node numbers are passed to the server as given, also outside the
        # segments
        release = rng.choice([nseg, nseg + 3, -1, release])
        loop = rng.choice([nseg + 1, -2, loop])
    multi = False
    if rng.random() < 0.18:
        # multichannel: nested per-channel entries in levels / times / curves
        multi = True
        width = rng.randint(2, 3)
        where = rng.choice(['levels', 'levels', 'curves', 'curves', 'all',
                            'all', 'times'])
        if where in ('levels', 'all'):
            for _ in range(rng.randint(1, 2)):
                k = rng.randrange(nlev)
                levels[k] = [gen_level(rng, cls)
                             for _ in range(rng.choice([width, width, 1, 2]))]
        if where in ('times', 'all') or (where == 'levels'
                                         and rng.random() < 0.3):
            if not isinstance(times, list):
                times = [times]
            k = rng.randrange(len(times))
            times[k] = [gen_dur(rng, dyadic) for _ in range(width)]
        if where in ('curves', 'all'):
            # a nested entry holds names, numbers or both
            if not isinstance(curves, list):
                curves = [curves]
            for _ in range(rng.randint(1, 2)):
                k = rng.randrange(len(curves))
                curves[k] = [gen_curve_item(rng, cls) for _ in range(
                    rng.choice([width, width, 2]))]
    return dict(levels=levels, times=times, curves=curves,
                release_node=release, loop_node=loop, cls=cls, dyadic=dyadic,
                multichannel=multi)


def gen_eval_times(rng, bp, dyadic, k=20):
    """Times at, between, before and after the breakpoints `bp`."""
    out = []
    total = bp[-1]
    for _ in range(k):
        c = rng.random()
        if c < 0.35:
            out.append(rng.choice(bp))
        elif c < 0.75:
            j = rng.randrange(len(bp) - 1)
            a, b = bp[j], bp[j + 1]
            if dyadic:
                f = rng.randint(0, 8) / 8.0
            else:
                f = rng.choice([rng.random(), 0.5, 1e-9, 1 - 1e-9])
            out.append(a + (b - a) * f)
        elif c < 0.85:
            out.append(rng.choice([-1, -0.5, -1e-9, -100.0]))
        else:
            out.append(total + rng.choice([0, 0.0, 1, 0.5, 1e-9, 1e6]))
    return out


# -- constructor calls -------------------------------------------------------

def mul(a, b):
    return a * b


def add(a, b):
    return a + b


def ew(op, a, b):
    """Element-wise with wrapping when an operand is a (per-channel) list."""
    if isinstance(a, list) or isinstance(b, list):
        la = a if isinstance(a, list) else [a]
        lb = b if isinstance(b, list) else [b]
        return [op(la[i % len(la)], lb[i % len(lb)])
                for i in range(max(len(la), len(lb)))]
    return op(a, b)


def gen_ctor_call(rng):
    """-> (name, kwargs, expected) where expected is dict(levels, times, curves,
    release_node, loop_node[, offset, xs]) from the documentation of the
    constructor, or check flags."""
    name, kw, flags = gen_ctor_kwargs(rng)
    exp = ctor_expected(name, kw)
    exp.update(flags)
    return name, kw, exp


def gen_ctor_kwargs(rng):
    """-> (name, kwargs, flags): a random call of a standard constructor."""
    name = rng.choice(['triangle', 'sine', 'perc', 'linen', 'cutoff', 'adsr',
                       'dadsr', 'asr', 'step', 'pairs', 'xyc'])
    tm1 = lambda: rng.choice([0.01, 0.1, 1, 1.0, 0.3, 2, 0.5, 0, 0.0,
                              round(rng.uniform(0.001, 4), 3)])
    lv1 = lambda: rng.choice([1, 1.0, 0.5, 0.1, 2, round(rng.uniform(0.01, 4), 3)])
    # every time / level parameter is documented as "list | float | int":
    # a list makes the envelope multichannel
    many = lambda f: [f() for _ in range(rng.randint(2, 3))] \
        if listy and rng.random() < 0.35 else f()
    listy = name not in ('step', 'pairs', 'xyc') and rng.random() < 0.3
    tm = lambda: many(tm1)
    lv = lambda: many(lv1)
    num_curve = lambda: rng.choice([-4.0, -4, 4, 0, 2.5, -1,
                                    round(rng.uniform(-8, 8), 2)])
    any_curve = lambda: rng.choice([num_curve(), 'lin', 'sin', 'wel', 'sqr',
                                    'cub', 'exp', 'linear', 'sine', 'welch',
                                    'squared', 'cubed', 'exponential',
                                    'step', 'hold'])
    flags = {}

    def some(kwargs):
        # drop a random subset so that the documented defaults are exercised
        return {k: v for k, v in kwargs.items() if rng.random() < 0.7}

    if name in ('triangle', 'sine'):
        kw = some(dict(dur=tm(), level=lv()))
    elif name == 'perc':
        kw = some(dict(attack_time=tm(), release_time=tm(), level=lv(),
                       curve=any_curve()))
    elif name == 'linen':
        kw = some(dict(attack_time=tm(), sustain_time=tm(), release_time=tm(),
                       level=lv(), curve=rng.choice(['lin', 'sin', 'wel',
                                                     num_curve()])))
    elif name == 'cutoff':
        kw = some(dict(release_time=tm(), level=lv(),
                       curve=rng.choice(['lin', 'sin', 'exp', 'exponential',
                                         'wel', num_curve()])))
    elif name in ('adsr', 'dadsr'):
        kw = dict(attack_time=tm(), decay_time=tm(),
                  sustain_level=many(lambda: rng.choice(
                      [0.5, 0.25, 1, 0.1, round(rng.random(), 2)])),
                  release_time=tm(), peak_level=lv(), curve=any_curve(),
                  bias=many(lambda: rng.choice([0, 0.0, 0.5, -1, 2])))
        if name == 'dadsr':
            kw['delay_time'] = tm()
        kw = some(kw)
    elif name == 'asr':
        kw = some(dict(attack_time=tm(), sustain_level=lv(), release_time=tm(),
                       curve=any_curve()))
    elif name == 'step':
        n = rng.randint(1, 6)
        levels = [lv() for _ in range(n)]
        times = [tm() for _ in range(n)]
        kw = dict(levels=levels, times=times)
        if rng.random() < 0.4:
            kw['release_level'] = rng.randint(1, n)
    else:  # pairs, xyc
        # Points in the order the caller writes them; documented: "pairs are
        # sorted regarding their point in time" - by time only, so points on
        # the same time (vertical rises and drops, several on one time) keep
        # the order in which they were given.
        n = rng.randint(2, 8)
        x0 = rng.choice([0, 0, 0.0, 0.5, 1, 0.25])
        dy = rng.random() < 0.6
        cont = ['lin', 'sin', 'wel', 'linear', -4, 2.0, 0]
        pts = []
        x = x0
        while len(pts) < n:
            if pts and rng.random() < 0.3:
                pass                        # same time as the previous point
            elif pts:
                x = x + (rng.randint(1, 1024) / 256.0 if dy
                         else round(rng.uniform(0.01, 3), 3))
            y = rng.choice([0, 1, 0.5, 1.5, round(rng.uniform(-2, 2), 2)])
            if pts and pts[-1][0] == x and rng.random() < 0.3:
                y = pts[-1][1]              # same (time, level), other curve
                c = rng.choice([-4, 2.0]) if isinstance(pts[-1][2], str) \
                    else rng.choice(['lin', 'sin'])
            else:
                c = rng.choice(cont)
            pts.append([x, y, c])
        how = rng.random()
        if how < 0.35:
            given = list(pts)                         # already ordered in time
        elif how < 0.7:
            given = list(pts)
            rng.shuffle(given)
        else:
            # times out of order, points of one time kept together in order
            groups = {}
            for q in pts:
                groups.setdefault(q[0], []).append(q)
            keys = list(groups)
            rng.shuffle(keys)
            given = [q for k in keys for q in groups[k]]
        if name == 'pairs':
            c = rng.choice(['none', 'scalar', 'list', 'list'])
            if c == 'none':
                kw = dict(pairs=[q[:2] for q in given])
            elif c == 'scalar':
                cv = rng.choice(cont + ['step', 'hold'])
                kw = dict(pairs=[q[:2] for q in given], curves=cv)
            else:
                kw = dict(pairs=[q[:2] for q in given],
                          curves=[q[2] for q in given])
        else:
            kw = dict(xyc=[list(q) for q in given])
        flags['dyadic'] = dy
    return name, kw, flags


def ctor_expected(name, kw):
    """The breakpoints the documentation of constructor `name` states for the
    call `name(**kw)`: dict(levels, times, curves, release_node, loop_node
    [, xs and flags for the point constructors]).  Parameters may be
    model_env.Signal placeholders (the arithmetic then yields expressions)."""
    if name in ('triangle', 'sine'):
        dur = kw.get('dur', 1.0)
        level = kw.get('level', 1.0)
        return dict(levels=[0, level, 0],
                    times=[ew(mul, dur, 0.5), ew(mul, dur, 0.5)],
                    curves='lin' if name == 'triangle' else 'sine',
                    release_node=None, loop_node=None)
    if name == 'perc':
        return dict(levels=[0, kw.get('level', 1.0), 0],
                    times=[kw.get('attack_time', 0.01),
                           kw.get('release_time', 1.0)],
                    curves=kw.get('curve', -4.0), release_node=None,
                    loop_node=None)
    if name == 'linen':
        level = kw.get('level', 1.0)
        return dict(levels=[0, level, level, 0],
                    times=[kw.get('attack_time', 0.01),
                           kw.get('sustain_time', 1.0),
                           kw.get('release_time', 1.0)],
                    curves=kw.get('curve', 'lin'), release_node=None,
                    loop_node=None)
    if name == 'cutoff':
        curve = kw.get('curve', 'lin')
        # documented: "sustains at the peak level until released", fades to
        # zero (-100 dB for exponential curves, which cannot reach zero)
        end = 10 ** (-100 / 20) if isinstance(curve, str) and \
            curve in ('exp', 'exponential') else 0
        return dict(levels=[kw.get('level', 1.0), end],
                    times=[kw.get('release_time', 0.1)], curves=curve,
                    release_node=0, loop_node=None)
    if name in ('adsr', 'dadsr'):
        peak = kw.get('peak_level', 1.0)
        sus = kw.get('sustain_level', 0.5)
        bias = kw.get('bias', 0.0)
        levels = [0, peak, ew(mul, peak, sus), 0]
        times = [kw.get('attack_time', 0.01), kw.get('decay_time', 0.3),
                 kw.get('release_time', 1.0)]
        rel = 2
        if name == 'dadsr':
            levels = [0] + levels
            times = [kw.get('delay_time', 0.1)] + times
            rel = 3
        return dict(levels=[ew(add, x, bias) for x in levels], times=times,
                    curves=kw.get('curve', -4.0), release_node=rel,
                    loop_node=None)
    if name == 'asr':
        return dict(levels=[0, kw.get('sustain_level', 1.0), 0],
                    times=[kw.get('attack_time', 0.01),
                           kw.get('release_time', 1.0)],
                    curves=kw.get('curve', -4.0), release_node=1,
                    loop_node=None)
    if name == 'step':
        levels, times = kw['levels'], kw['times']
        # documented: n levels for n times, each the fixed value of its
        # segment; no release/loop node unless given
        return dict(levels=[levels[0]] + list(levels), times=list(times),
                    curves='step',
                    release_node='unchecked' if 'release_level' in kw else None,
                    loop_node=None)
    # pairs, xyc
    if name == 'pairs':
        pairs = kw['pairs']
        cv = kw.get('curves')
        if cv is None:
            given = [[q[0], q[1], 'lin'] for q in pairs]
        elif isinstance(cv, list):
            given = [[q[0], q[1], c] for q, c in zip(pairs, cv)]
        else:
            given = [[q[0], q[1], cv] for q in pairs]
    else:
        given = [list(q) for q in kw['xyc']]
    order = sorted(given, key=lambda q: q[0])     # stable, by time only
    xs = [q[0] for q in order]
    ys = [q[1] for q in order]
    curves = [q[2] for q in order]
    return dict(levels=ys, times=[b - a for a, b in zip(xs, xs[1:])],
                curves=curves[:-1], release_node=None, loop_node=None,
                xs=xs,
                equal_times=len(set(xs)) < len(xs),
                drop=any(a == b and not _sym(u) and not _sym(v) and v < u
                         for a, b, u, v in zip(xs, xs[1:], ys, ys[1:])),
                same_point_mixed_curves=any(
                    p[:2] == q[:2] and type(p[2]) is not type(q[2])
                    for p, q in zip(order, order[1:])))


def _sym(x):
    return not isinstance(x, (int, float))
