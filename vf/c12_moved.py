"""C12: tasks that wake several times and are put on the clock AGAIN (round 8).

Class of behaviour: a task / routine that is scheduled a second (third ...)
time on the same TempoClock - while its first wake-up is still pending, between
two of its wake-ups, from inside its own wake-up, or after it came to rest -
and then goes on by yielding / returning numeric deltas, with tempo / etempo /
beats / beats_per_bar changes before and after the wake-ups.  Entry points:
Routine.play(clock, quant), Routine.pause() + Routine.resume(clock | None,
quant), TempoClock.play(task, quant), TempoClock.play_next_bar(task),
TempoClock.sched_abs(beat, task), TempoClock.sched(delta, task); task kinds:
Routine (generator) and sc3 Function objects (one identity over all the
schedulings; a plain function is wrapped anew by every sched call and would be
a different task each time).

What the statement (and the clock's own documentation) fixes:
* a clock holds ONE entry per task: scheduling a task that is pending moves it
  (real-time queues by construction, the non-real-time scheduler "moves it, as
  rt clocks do"), so the body wakes at the beat of the LATEST scheduling only;
* "play() with a quant schedules exactly there": the first wake-up after a
  quantised scheduling is the grid point of the reference beat of that call
  (meter reference of that instant), whatever tempo / beats changes follow
  ("already scheduled tasks ... will still be performed at the scheduled time
  in beats");
* sched_abs(beat) wakes on `beat`, sched(delta) on current beat + delta,
  play_next_bar on the next bar line (grid of beats_per_bar, phase 0);
* a numeric delta handed back at beat b puts the next wake-up on b + delta
  (also when the task had scheduled itself elsewhere during that wake-up: the
  one entry is moved again);
* on every wake-up the (seconds, beats) pair read from the clock lies on the
  affine map the reference model holds at that instant;
* Routine.play() on a routine that is already playing and resume() on one that
  is not paused do nothing (documented), so the pending wake-up stays.

The root routine of the program (vf/c12_run.py) issues all the scheduling
calls, so the reference beat of every call is the root's logical beat.  A
routine paused by an op is resumed before the root yields (harness: a paused
routine's pending wake-up would be dropped unobservably).

No sc3 import here; sc3 objects come in through the Run object.
"""

from vf import c12_model as M
from vf.common import short_tb

PREV_END = ['return']


def _take_prev_end():
    prev = PREV_END[0]
    PREV_END[0] = 'return'
    return prev.split(':')[0]


def _after(prev):
    return '' if prev == 'return' else f'/right-after-task-ending-with-{prev}'


def quant_qp(spec):
    if spec is None:
        return 1, 0          # documented default of Quant: next whole beat
    if isinstance(spec, dict):
        return spec['q'], spec['p']
    if isinstance(spec, list):
        return spec[0], spec[1]
    return spec, 0


class MovedTasks:
    """Mix-in of vf.c12_run.Run: ops 'mplay', 'mpause', 'mmove'."""

    def _mt_init(self):
        self.mtasks = {}

    # -- expectations ----------------------------------------------------
    def _mt_expect(self, t, sched):
        """The scheduling call `sched` has just been made for task t at the
        root's logical time: where must the next wake-up be?"""
        mdl = self.model
        how = sched[0]
        now_beat = mdl.beats(self.now)
        base = dict(how=how, at_second=self.now, at_beat=now_beat,
                    changes_at=self.map_changes, step=self.step_index)
        if how in ('play', 'clock.play', 'resume'):
            q, p = quant_qp(sched[1])
            base.update(type='grid', q=q, p=p, ref=now_beat,
                        bbb=mdl.base_bar_beat)
        elif how == 'next_bar':
            base.update(type='grid', q=mdl.bpb, p=0, ref=now_beat,
                        bbb=mdl.base_bar_beat)
        elif how == 'sched_abs':
            base.update(type='beat', beat=sched[2])
        elif how == 'sched':
            base.update(type='beat', beat=now_beat + sched[1])
        else:
            raise ValueError(sched)
        if t['pending']:
            t['moves_while_pending'] += 1
            self.n('moved_task_moves_while_pending')
            if t['nwakes'] == 0:
                self.n('moved_task_moves_before_first_wake')
            self.n('moved_task_moves_while_pending_by_' + how)
        t['due'] = base
        t['pending'] = True
        t['schedulings'] += 1
        t['history'].append([how, self.step_index])

    # -- the scheduling calls ----------------------------------------------
    def _mt_schedule(self, t, sched):
        """Make the call; returns True when the clock was (re)loaded."""
        clk, task = self.clk, t['task']
        how = sched[0]
        routine = t['kind'] == 'routine'
        if routine and t['state'] == 'done':
            self.n('moved_task_ops_skipped_task_done')
            return False
        st = t['state']         # the Routine's state as documented: init,
        #                         suspended (playing), paused, done
        if how == 'play':
            ok, _ = self.call('play', task.play, clk, self._quant_obj(sched[1]))
            if st not in ('init', 'paused'):
                # documented: only an unplayed or paused routine is played
                self.n('moved_task_play_on_playing_routine')
                return False
            if ok:
                t['state'] = 'suspended'
        elif how == 'resume':
            # resume(None, quant) goes to the clock the routine remembers,
            # reset() / stop() make it forget
            ok, _ = self.call('resume', task.resume,
                              clk if sched[2] or t['clock_forgotten'] else None,
                              self._quant_obj(sched[1]))
            if st != 'paused':
                # documented: "does nothing if wasn't paused before"
                self.n('moved_task_resume_on_unpaused_routine')
                return False
            if ok:
                t['state'] = 'suspended'
        else:
            if routine and st == 'paused':
                # a paused routine on the clock is dropped at its wake-up
                self.n('moved_task_ops_skipped_task_paused')
                return False
            # the clock's own entry points do not look at the routine's state
            if how == 'clock.play':
                ok, _ = self.call('play', clk.play, task,
                                  self._quant_obj(sched[1]))
            elif how == 'next_bar':
                ok, _ = self.call('play_next_bar', clk.play_next_bar, task)
            elif how == 'sched_abs':
                ok, _ = self.call('sched_abs', clk.sched_abs, sched[2], task)
            elif how == 'sched':
                ok, _ = self.call('sched', clk.sched, sched[1], task)
            else:
                raise ValueError(sched)
        if not ok:
            return False
        t['clock_forgotten'] = False
        self._mt_expect(t, sched)
        return True

    def _mt_resolve(self, sched):
        """{'rel': x} of sched_abs -> absolute beat (root's current beat + x)."""
        if sched[0] == 'sched_abs':
            return ['sched_abs', sched[1],
                    self.model.beats(self.now) + sched[1]['rel']]
        return sched

    # -- ops ---------------------------------------------------------------
    def op_mplay(self, tid, kind, sched, deltas, selfmoves):
        sc = self.sc
        run = self
        t = dict(tid=tid, kind=kind, deltas=deltas, selfmoves=selfmoves,
                 nwakes=0, wakes=[], pending=False, due=None, state='init',
                 schedulings=0, moves_while_pending=0, history=[], task=None,
                 finished=False, clock_forgotten=False,
                 stopped_at=None)

        def wake(c):
            try:
                return run._mt_wake(t, c)
            except BaseException as e:      # harness error, never a verdict
                if run.internal is None:
                    run.internal = short_tb(e, 10)
                t['pending'] = False
                t['finished'] = True
                return None

        if kind == 'routine':
            def body(inval):
                while True:
                    d = wake(inval[1])
                    if d is None:
                        return
                    inval = yield d
            t['task'] = sc.Routine(body)
        else:
            def func(fn, c):            # Function: (function, clock)[:nargs]
                return wake(c)
            t['task'] = sc.Function(func)
        self.mtasks[tid] = t
        self.n('moved_tasks_' + kind)
        self._mt_schedule(t, self._mt_resolve(sched))

    def op_mpause(self, tid):
        t = self.mtasks.get(tid)
        if t is None or t['kind'] != 'routine' or t['state'] == 'done':
            self.n('moved_task_ops_skipped')
            return
        ok, _ = self.call('pause', t['task'].pause)
        if ok:
            # Init or Suspended -> Paused; the entry on the clock stays
            t['state'] = 'paused'
            self.n('moved_task_pauses')

    def op_mreset(self, tid):
        """Routine.reset(): "reset the routine to its initial state" - the
        entry on the clock stays, the body starts over at the next wake-up
        (the harness' body goes on in its list of deltas), play() acts again.
        Not issued for a routine stopped in an earlier step: whether its
        entry has been dropped meanwhile cannot be observed."""
        t = self.mtasks.get(tid)
        if t is None or t['kind'] != 'routine' or (
                t['state'] == 'done' and not t['finished']
                and t['stopped_at'] != self.step_index):
            self.n('moved_task_ops_skipped')
            return
        ok, _ = self.call('reset', t['task'].reset)
        if ok:
            t['state'] = 'init'
            t['finished'] = False
            t['clock_forgotten'] = True     # reset() forgets the clock
            self.n('moved_task_resets')
            if t['pending']:
                self.n('moved_task_resets_while_pending')

    def op_mstop(self, tid):
        """Routine.stop(): the routine is done.  Its entry stays on the clock
        and is dropped at the wake-up without running the body - unless the
        routine is reset before (same step here: stop(), reset(), play())."""
        t = self.mtasks.get(tid)
        if t is None or t['kind'] != 'routine' or t['state'] == 'done':
            self.n('moved_task_ops_skipped')
            return
        ok, _ = self.call('stop', t['task'].stop)
        if ok:
            t['state'] = 'done'
            t['stopped_at'] = self.step_index
            t['clock_forgotten'] = True
            self.n('moved_task_stops')
            if t['pending']:
                self.n('moved_task_stops_while_pending')

    def op_mmove(self, tid, sched):
        t = self.mtasks.get(tid)
        if t is None:
            self.n('moved_task_ops_skipped')
            return
        if sched[0] in ('play', 'resume') and t['kind'] != 'routine':
            sched = ['clock.play', sched[1]]
        self._mt_schedule(t, self._mt_resolve(sched))

    def mt_settle(self):
        """Before the root yields: no routine stays paused."""
        for t in self.mtasks.values():
            if t['kind'] == 'routine' and t['state'] == 'paused' \
                    and not self.stop:
                self._mt_schedule(t, ['resume', None, True])
                self.n('moved_task_resumed_at_step_end')
            if t['state'] == 'done' and t['pending']:
                # stopped and not restarted: the entry will be dropped
                t['pending'] = False
                t['due'] = None
                self.n('moved_task_stopped_for_good')

    # -- wake-ups -------------------------------------------------------------
    def _mt_wake(self, t, c):
        prev = _take_prev_end()
        if self.stop:
            t['pending'] = False
            t['finished'] = True
            return None
        ok, vals = self.call('beats', lambda: (c.seconds, c.beats))
        if not ok:
            t['pending'] = False
            return None
        s, b = vals
        mdl = self.model
        mdl._seen(s, b)
        k = t['nwakes']
        t['nwakes'] += 1
        t['wakes'].append((s, b))
        self.n('moved_task_wakeups')
        if prev != 'return':
            self.n('wakes_checked_right_after_' + prev)
        moved = t['moves_while_pending'] > 0
        tag = ('/task-moved-while-pending' if moved else
               '/task-scheduled-again' if t['schedulings'] > 1 else '')
        wit = dict(task=self._mt_pub(t), woke_at_beat=b, woke_at_second=s,
                   wake_number=k)
        if c is not self.clk:
            self.bad('C12/moved-task/wake/clock-differs', **wit)
            return None
        due = t['due']
        if not t['pending'] or due is None:
            self.bad('C12/moved-task/wake/not-scheduled' + tag,
                     prev_event_ended_with=prev, **wit)
            return None
        changed = self.map_changes != due['changes_at']
        if changed:
            self.n('moved_task_wakeups_after_map_change')
        if moved:
            self.n('moved_task_wakeups_after_move_while_pending')
        # mechanism keys: for a task that was put on the clock again the key
        # names that history (one defect of "moving" = one key, the scheduling
        # call and the kind of miss are in the witness); for a task scheduled
        # once it names the entry point and the kind of miss
        pend = '/map-changed-while-pending' if changed else ''
        sfx = tag       # (how the previous event ended is in the witness)
        if due['type'] == 'grid':
            self.n('moved_task_first_wakes_checked')
            self.n('moved_task_first_wakes_checked_' + due['how'])
            why = M.grid_check(b, due['q'], due['p'], due['ref'], due['bbb'],
                               self.tolb(b, due['ref']))
            if why:
                what = ('first-wake/not-where-the-latest-scheduling-put-it'
                        if tag else f'first-wake-after-{due["how"]}/{why[0]}')
                self.bad(f'C12/moved-task/{what}' + sfx + pend, miss=why[0],
                         text=why[1], prev_event_ended_with=prev, **wit)
                return None
        else:
            want = due['beat']
            first = due['how'] != 'delta'
            self.n('moved_task_first_wakes_checked' if first else
                   'moved_task_delta_wakes_checked')
            if first:
                self.n('moved_task_first_wakes_checked_' + due['how'])
            elif moved:
                self.n('moved_task_delta_wakes_checked_after_move')
            if abs(b - want) > self.tolb(b, want):
                if not first:
                    what = 'wake/beat-is-not-previous-plus-delta'
                    pend = ''
                elif tag:
                    what = 'first-wake/not-where-the-latest-scheduling-put-it'
                else:
                    what = (f'first-wake-after-{due["how"]}/'
                            'not-the-scheduled-beat')
                self.bad(f'C12/moved-task/{what}' + sfx + pend,
                         expected_beat=want, prev_event_ended_with=prev, **wit)
                return None
        want = mdl.beats(s)
        if abs(b - want) > self.tolb(b, want):
            self.bad('C12/moved-task/map/beats-at-wake' + (tag or _after(prev)),
                     model_beat_of_second=want, tempo=mdl.tempo,
                     prev_event_ended_with=prev, **wit)
            return None
        # -- how this wake-up goes on
        deltas = t['deltas']
        if k < len(deltas):
            sm = t['selfmoves'][k] if k < len(t['selfmoves']) else None
            if sm is not None:
                # the task schedules itself elsewhere, then hands back a
                # delta: the one entry of the task is moved to beat + delta
                ok, _ = self.call('sched_abs', c.sched_abs, b + sm, t['task'])
                if not ok:
                    t['pending'] = False
                    return None
                self.n('moved_task_self_moves')
            d = deltas[k]
            t['due'] = dict(type='beat', how='delta', beat=b + d,
                            at_second=s, at_beat=b,
                            changes_at=self.map_changes, step=self.step_index)
            t['pending'] = True
            if t['kind'] == 'routine':
                t['state'] = 'suspended'
            return d
        t['pending'] = False
        if t['kind'] == 'routine':
            t['state'] = 'done'
            t['finished'] = True
            PREV_END[0] = 'gen-end'
        return None

    def _mt_pub(self, t):
        return {k: v for k, v in t.items() if k != 'task'}

    def mt_pending(self):
        return any(t['pending'] for t in self.mtasks.values())

    def judge_mtasks(self):
        for t in self.mtasks.values():
            if t['pending']:
                self.bad('C12/moved-task/never-woke'
                         + ('/task-moved-while-pending'
                            if t['moves_while_pending'] else ''),
                         task=self._mt_pub(t))
                return
            if t['nwakes']:
                self.n('moved_tasks_run_to_rest')
            if t['moves_while_pending'] and t['nwakes'] > 1:
                self.n('moved_tasks_moved_and_continued_by_delta')
