"""C17 workload generator (pure data, no sc3 import).

A program is a list of items; an item is an op (dict, see vf/model_cmds.py)
or a bind block {'bind': [ops], 'raise_at': k | None, 'propagate': bool}:
ops[0:k] run inside `with server.bind():`, then the harness raises (raise_at
== k) or an op documented to raise lets its exception escape the block.

Handles are strings: n<k> nodes, b<k> buffers, cb<k>/ab<k> buses.  The
generator keeps a symbolic pool so that every op only refers to objects whose
state makes the call meaningful (documented domain): live nodes as targets,
buffers that were not freed (except for the explicit double-free op), buses
inside their channel range, objects created inside a failed block never used
again.

Use after free (round 7, the class the earlier workload did not reach: it
only ever called index-based ControlBus methods and free() on freed objects).
Objects that were freed earlier in the history are used again, as receiver
and as argument, for every object kind:
  busq       Bus.as_map() on live buses of both rates (checks the symbol and
             fills the object's cache; a bus about to be freed is asked first
             in half of the cases) and on freed ones
  busfreed   freed bus: free() again, every index-based ControlBus method
             (set, setn, set_at, setn_at, set_pairs, fill, clear, get, getn),
             as_map(), the bus object given to Node.map/mapa/mapn/mapan
  buffreed   freed Buffer: every method of the workload, the buffer as
             destination of copy_data
  nodefreed  freed Node (keeps its id): free, set, run, trace, release, query
  values     `bus.as_map()` of a freed bus, freed Bus / Buffer objects among
             the arguments of Synth(...) and Node.set (value()), map symbols
             of live and freed buses in raw send_msg commands (/n_set, /n_setn)
Ops flagged 'uaf_id_slot' put a freed object where a command has an id slot.

Nested bind() blocks (round 8, the class the earlier workload did not reach:
no block was ever opened while another one was open): gen_nested_case builds
a tree of blocks, 1-3 levels, on one or two servers, with exceptions raised
at any point of any block and caught around any block of the chain, sync
points and waits inside inner blocks (routines), operations for a server
whose blocks are all closed.
"""

DEFS = ['default', 'vf_sine', 'vf_pad', 'x']
# definitions that are really add()ed (vf/c17_exec.py:define_seti_defs): the
# control layout in declaration order, arrayed controls followed by others
SETI_DEFS = {
    'vf_seti_a': [('out', 1), ('freqs', 3), ('amp', 1), ('pan', 1)],
    'vf_seti_b': [('freqs', 2), ('amps', 4), ('gate', 1)],
    'vf_seti_c': [('a', 1), ('arr', 5), ('b', 3), ('c', 1)],
}
CTL_NAMES = ['freq', 'amp', 'gate', 'out', 'in', 'bufnum', 'pan', 'freqs', 'bus']
ACTIONS = ['addToHead', 'addToTail', 'addBefore', 'addAfter', 'addReplace',
           'head', 'tail', 'before', 'after', 'replace', 'h', 't', 'b', 'a', 'r',
           0, 1, 2, 3, 4]
PATHS = ['/tmp/vf/a.wav', '/tmp/vf/snd one.aiff', '/data/x.flac', 'rel/y.wav',
         '/tmp/vf/été.wav']
F32 = [0.0, 0.5, 0.25, -1.0, 1.0, 440.0, 0.125, 2.5, -0.75, 1000.0, 1e-3, 0.1,
       3.14159, 1e6, -2.5e-4]


class Pool:
    def __init__(self):
        self.nodes = {}     # h -> {'kind', 'state'}
        self.bufs = {}      # h -> {'state', 'frames', 'channels', 'group', 'first', 'server_side'}
        self.buses = {}     # h -> {'rate', 'channels', 'state', 'owns'}
        self.k = 0
        self.created_in_block = []
        self.uaf = False       # the op being generated uses a freed object
        self.cached = False    # ... whose as_map() symbol had been cached

    def new(self, prefix):
        self.k += 1
        return f'{prefix}{self.k}'

    def live_nodes(self, kinds=None):
        return [h for h, n in self.nodes.items() if n['state'] == 'live'
                and (kinds is None or n['kind'] in kinds)]

    def live_bufs(self, server_side=None):
        return [h for h, b in self.bufs.items() if b['state'] == 'live'
                and (server_side is None or b['server_side'] == server_side)]

    def live_buses(self, rate=None, owns=None):
        return [h for h, b in self.buses.items() if b['state'] == 'live'
                and (rate is None or b['rate'] == rate)
                and (owns is None or b['owns'] == owns)]

    def freed_buses(self, rate=None):
        """Buses freed by their own free() (not sub-buses of a freed parent,
        not objects of a failed block)."""
        return [h for h, b in self.buses.items() if b['state'] == 'freed'
                and (rate is None or b['rate'] == rate)]

    def freed_bufs(self):
        return [h for h, b in self.bufs.items() if b['state'] == 'freed']

    def freed_nodes(self):
        return [h for h, n in self.nodes.items() if n['state'] == 'freed']


def number(rng, kind=None):
    kind = kind or rng.choice(['int', 'f32', 'float'])
    if kind == 'int':
        return rng.choice([0, 1, 2, -1, 3, 7, 64, 440, rng.randint(-1000, 1000)])
    if kind == 'f32':
        return rng.choice(F32)
    return round(rng.uniform(-100, 100), rng.randint(1, 6)) + 0.0


def ctl(rng):
    return rng.choice(CTL_NAMES) if rng.random() < 0.75 else rng.randint(0, 12)


def stale_value(rng, pool):
    """An argument built from an object that was freed earlier, or None."""
    fb, fbuf = pool.freed_buses(), pool.freed_bufs()
    if not fb and not fbuf:
        return None
    pool.uaf = True
    if fb and (not fbuf or rng.random() < 0.7):
        h = rng.choice(fb)
        if rng.random() < 0.7:
            if pool.buses[h].get('mapped'):
                pool.cached = True
            return {'$map': h}
        return {'$bus': h}
    return {'$buf': rng.choice(fbuf)}


def value(rng, pool, depth=0, allow_seq=True):
    if rng.random() < 0.05:
        v = stale_value(rng, pool)
        if v is not None:
            return v
    r = rng.random()
    if r < 0.45:
        return number(rng)
    if r < 0.55 and allow_seq and depth < 2:
        n = rng.randint(1, 4)
        seq = [value(rng, pool, depth + 1) for _ in range(n)]
        return seq if rng.random() < 0.7 else {'$tuple': seq}
    if r < 0.65:
        hs = pool.live_buses()
        if hs:
            h = rng.choice(hs)
            if rng.random() < 0.5:
                pool.buses[h]['mapped'] = True     # the object caches its symbol
                return {'$map': h}
            return {'$bus': h}
    if r < 0.72:
        hs = pool.live_bufs()
        if hs:
            return {'$buf': rng.choice(hs)}
    if r < 0.76:
        hs = pool.live_nodes()
        if hs:
            return {'$node': rng.choice(hs)}
    if r < 0.80:
        return rng.choice([True, False])
    if r < 0.84:
        return rng.choice(['sym', 'hold', 'x1'])
    return number(rng)


def arg_pairs(rng, pool, maxn=4):
    out = []
    for _ in range(rng.randint(0, maxn)):
        out += [ctl(rng), value(rng, pool)]
    return out


def synth_args(rng, pool, stats, in_bind=False):
    r = rng.random()
    if r < 0.2:
        return None
    if r < 0.75:
        return arg_pairs(rng, pool)
    if r < 0.8:
        return {'$tuple_args': arg_pairs(rng, pool)}
    # dict form (documented: Synth('sine', {'freq': 220, 'amp': 0.1}))
    items = []
    seen = set()
    listy = rng.random() < 0.12 and not in_bind
    for _ in range(rng.randint(1, 4)):
        k = ctl(rng)
        if k in seen:
            continue
        seen.add(k)
        v = value(rng, pool, allow_seq=listy)
        items.append([k, v])
    if any(isinstance(v, list) or (isinstance(v, dict) and '$tuple' in v)
           for _, v in items):
        stats['dict_with_sequence_value'] = True
        return {'$dict': items, 'sequence_value': True}
    return {'$dict': items}


def target(rng, pool, need_node=False, int_ok=True):
    nodes = pool.live_nodes()
    r = rng.random()
    if need_node:
        return {'$node': rng.choice(nodes)} if nodes else None
    if int_ok and rng.random() < 0.12:
        return literal_target(rng)
    if r < 0.25 or not nodes:
        return None if rng.random() < 0.6 else {'$server': True}
    if r < 0.9 or not int_ok:
        return {'$node': rng.choice(nodes)}
    return {'$int': rng.choice(nodes)}


def literal_target(rng):
    """Plain int target naming a well-known node: 0 root, 1 default group."""
    return {'$lit': rng.choice([0, 0, 1])}


def completion(rng, pool, fn_ok=True, index=False):
    r = rng.random()
    if r < 0.5:
        return None
    if r < 0.8 and fn_ok:
        if index:
            return {'$fn': 'index'}
        return {'$fn': rng.choice(['zero', 'query', 'none'])}
    hs = pool.live_bufs()
    if hs and rng.random() < 0.6:
        return {'$msg': ['/b_query', {'$buf': rng.choice(hs)}]}
    return {'$msg': ['/sync', rng.randint(0, 1000)]}


def gen_op(rng, pool, in_bind, stats, multi_client, nrt=True):
    """Returns one op, updating the symbolic pool."""
    pool.uaf = pool.cached = False
    op = _gen_op(rng, pool, in_bind, stats, multi_client, nrt)
    if pool.uaf:
        stats['use_after_free'] = stats.get('use_after_free', 0) + 1
    if pool.cached:
        op['cached_symbol'] = True
        stats['stale_cached_symbol'] = stats.get('stale_cached_symbol', 0) + 1
    return op


def _bus_method_fields(rng, m, ch):
    """Arguments of an index-based ControlBus method for a bus of ch channels."""
    op = {}
    if m in ('set', 'setn'):
        op['values'] = [number(rng) for _ in range(rng.randint(1, ch))]
    elif m in ('set_at', 'setn_at'):
        off = rng.randint(0, ch - 1)
        op['offset'] = off
        op['values'] = [number(rng) for _ in range(rng.randint(1, ch - off))]
    elif m == 'set_pairs':
        pr = []
        for _ in range(rng.randint(1, 3)):
            pr += [rng.randint(0, ch - 1), number(rng)]
        op['pairs'] = pr
    elif m == 'fill':
        op.update(value=number(rng), channels=rng.randint(1, ch))
    elif m == 'getn':
        op['count'] = rng.choice([None, rng.randint(1, ch)])
    return op


def _buf_method_fields(rng, pool, m, bufs):
    """Arguments of a Buffer method (shared by live and freed receivers)."""
    op = {}
    if m in ('zero', 'close', 'alloc'):
        op['completion'] = completion(rng, pool)
    elif m == 'alloc_read':
        op.update(path=rng.choice(PATHS), start=rng.choice([0, 50]),
                  frames=rng.choice([-1, 2000]), completion=completion(rng, pool))
    elif m == 'set':
        pr = []
        for _ in range(rng.randint(1, 4)):
            pr += [rng.randint(0, 64), number(rng)]
        op['pairs'] = pr
    elif m == 'setn':
        a = []
        for _ in range(rng.randint(1, 3)):
            vals = ([number(rng) for _ in range(rng.randint(1, 6))]
                    if rng.random() < 0.8 else number(rng))
            a += [rng.randint(0, 64), vals]
        op['args'] = a
    elif m == 'fill':
        vals = [number(rng)]
        for _ in range(rng.randint(0, 2)):
            vals += [rng.randint(0, 64), rng.randint(1, 16), number(rng)]
        op.update(start=rng.randint(0, 64), frames=rng.randint(1, 64), values=vals)
    elif m == 'get':
        op['index'] = rng.randint(0, 64)
    elif m == 'getn':
        op.update(index=rng.randint(0, 64), count=rng.randint(1, 16))
    elif m == 'read':
        op.update(path=rng.choice(PATHS), file_start=rng.choice([0, 0, 1000]),
                  frames=rng.choice([-1, -1, 500]), buf_start=rng.choice([0, 0, 8]),
                  leave_open=rng.choice([False, False, True]))
    elif m == 'read_channel':
        op.update(path=rng.choice(PATHS), file_start=rng.choice([0, 1000]),
                  frames=rng.choice([-1, 500]), buf_start=rng.choice([0, 8]),
                  leave_open=rng.choice([False, True]),
                  chans=[rng.randint(0, 3) for _ in range(rng.randint(1, 3))])
    elif m == 'cue':
        op.update(path=rng.choice(PATHS), start=rng.choice([0, 0, 10, 44100]),
                  completion=completion(rng, pool))
    elif m == 'write':
        hdr = rng.choice(['aiff', 'wav', 'flac'])
        op.update(path=f'/tmp/vf/out{rng.randint(0, 9)}.{hdr}', header=hdr,
                  sample=rng.choice(['int16', 'int24', 'float']),
                  frames=rng.choice([-1, -1, 1000]), start=rng.choice([0, 0, 64]),
                  leave_open=rng.choice([False, False, True]),
                  completion=completion(rng, pool))
    elif m in ('sine1', 'cheby'):
        op.update(amps=[number(rng, 'f32') for _ in range(rng.randint(1, 6))],
                  **_flags(rng))
    elif m == 'sine2':
        n = rng.randint(1, 4)
        op.update(freqs=[number(rng) for _ in range(n)],
                  amps=[number(rng, 'f32') for _ in range(n)], **_flags(rng))
    elif m == 'sine3':
        n = rng.randint(1, 4)
        op.update(freqs=[number(rng) for _ in range(n)],
                  amps=[number(rng, 'f32') for _ in range(n)],
                  phases=[number(rng, 'f32') for _ in range(n)], **_flags(rng))
    elif m == 'gen':
        op.update(cmd=rng.choice(['sine1', 'cheby']),
                  args=[number(rng, 'f32') for _ in range(rng.randint(1, 4))],
                  **_flags(rng))
    elif m == 'normalize':
        op.update(new_max=rng.choice([1, 0.5, 1.0, 2]),
                  as_wavetable=rng.choice([False, True]))
    elif m == 'copy_data':
        op.update(dst=rng.choice(bufs), dst_start=rng.choice([0, 16]),
                  start=rng.choice([0, 8]), num=rng.choice([-1, 128]))
    return op


BUF_METHODS = ['zero', 'set', 'setn', 'fill', 'get', 'getn', 'query',
               'update_info', 'read', 'read_channel', 'write', 'close', 'sine1',
               'sine2', 'sine3', 'cheby', 'gen', 'normalize', 'copy_data', 'cue',
               'alloc', 'alloc_read']
# methods that put the buffer number into a command without looking whether
# the object still has one (the others announce BufferAlreadyFreed themselves)
BUF_UNGUARDED = ['read', 'read_channel', 'cue', 'alloc', 'alloc_read', 'update_info']
BUS_INDEX_METHODS = ['set', 'setn', 'set_at', 'setn_at', 'set_pairs', 'fill',
                     'clear', 'get', 'getn']


def _gen_op(rng, pool, in_bind, stats, multi_client, nrt=True):
    def again():
        # the draw does not apply to this pool: forget it and draw again
        pool.uaf = pool.cached = False
        return _gen_op(rng, pool, in_bind, stats, multi_client, nrt)

    nodes = pool.live_nodes()
    groups = pool.live_nodes(('group', 'pargroup'))
    synths = pool.live_nodes(('synth',))
    bufs = pool.live_bufs()
    cbs = pool.live_buses('control')
    abs_ = pool.live_buses('audio')
    table = [
        ('synth', 10), ('group', 5), ('node', 22 if nodes else 0),
        ('buffer', 7), ('buf', 14 if bufs else 0), ('bufdfree', 1.2),
        ('free_all', 0.6), ('bus', 5), ('busm', 9 if (cbs or abs_) else 0),
        ('busfreed', 2.2), ('server', 2.5), ('basic_new', 0.7), ('subbus', 0.7),
        ('busq', 2.0 if (cbs or abs_) else 0), ('buffreed', 1.6),
        ('nodefreed', 1.0),
    ]
    names, w = zip(*table)
    kind = rng.choices(names, w)[0]
    int_ok = not multi_client

    if kind == 'synth':
        ctor = rng.choices(['init', 'new_paused', 'grain', 'after', 'before',
                            'head', 'tail', 'replace'],
                           [10, 2, 1.5, 1, 1, 1, 1, 1.5])[0]
        op = {'op': 'synth', 'ctor': ctor,
              'def': rng.choice(DEFS) if rng.random() < 0.75 else rng.choice(sorted(SETI_DEFS)),
              'args': synth_args(rng, pool, stats, in_bind)}
        if isinstance(op['args'], dict) and '$tuple_args' in op['args']:
            op['args'] = op['args']['$tuple_args']
            op['args_as_tuple'] = True
        if ctor in ('init', 'new_paused', 'grain'):
            op['target'] = target(rng, pool, int_ok=int_ok)
            if multi_client and op['target'] is None:
                op['target'] = {'$server': True}
            op['action'] = rng.choice(ACTIONS)
        else:
            if ctor != 'replace' and int_ok and rng.random() < 0.15:
                op['target'] = literal_target(rng)
            elif not nodes:
                return again()
            else:
                op['target'] = target(rng, pool, need_node=True)
            if ctor == 'replace':
                op['same_id'] = rng.random() < 0.4
        if ctor != 'grain':
            h = pool.new('n')
            op['out'] = h
            pool.nodes[h] = {'kind': 'synth', 'state': 'live', 'def': op['def']}
            pool.created_in_block.append(h)
            replaced = (ctor == 'replace') or (ctor in ('init', 'new_paused') and
                                              op['action'] in ('addReplace', 'replace', 'r', 4))
            if pool.uaf:
                # an argument comes from a freed object: the constructor has
                # to (stale as_map()) or may (freed object) raise, so the new
                # object is never used and nothing counts as replaced
                pool.nodes[h]['state'] = 'limbo'
                replaced = False
            if replaced and isinstance(op['target'], dict) and \
                    ('$node' in op['target'] or '$int' in op['target']):
                t = op['target'].get('$node') or op['target'].get('$int')
                pool.nodes[t]['state'] = 'freed'
        stats['add_actions'].add(str(op.get('action', ctor)))
        return op

    if kind == 'group':
        ctor = rng.choices(['init', 'after', 'before', 'head', 'tail', 'replace'],
                           [8, 1, 1, 1, 1, 1])[0]
        cls = rng.choice(['Group', 'Group', 'ParGroup'])
        op = {'op': 'group', 'cls': cls, 'ctor': ctor}
        if ctor == 'init':
            op['target'] = target(rng, pool, int_ok=int_ok)
            if multi_client and op['target'] is None:
                op['target'] = {'$server': True}
            op['action'] = rng.choice(ACTIONS)
        else:
            if ctor != 'replace' and int_ok and rng.random() < 0.15:
                op['target'] = literal_target(rng)
            elif not nodes:
                return again()
            else:
                op['target'] = target(rng, pool, need_node=True)
        h = pool.new('n')
        op['out'] = h
        pool.nodes[h] = {'kind': 'group' if cls == 'Group' else 'pargroup',
                         'state': 'live'}
        pool.created_in_block.append(h)
        act = op.get('action', ctor)
        if act in ('addReplace', 'replace', 'r', 4) and isinstance(op['target'], dict) \
                and ('$node' in op['target'] or '$int' in op['target']):
            t = op['target'].get('$node') or op['target'].get('$int')
            pool.nodes[t]['state'] = 'freed'
        stats['add_actions'].add(str(act))
        return op

    if kind == 'basic_new':
        h = pool.new('n')
        cls = rng.choice(['Synth', 'Group', 'ParGroup'])
        pool.nodes[h] = {'kind': cls.lower(), 'state': 'basic'}
        op = {'op': 'basic_new', 'cls': cls, 'def': 'default', 'out': h}
        if rng.random() < 0.4:
            op['node_id'] = rng.choice([0, 0, 1])     # explicit well-known id
        return op

    if kind == 'node':
        h = rng.choice(nodes)
        nk = pool.nodes[h]['kind']
        ms = ['free', 'run', 'set', 'set', 'set', 'setn', 'fill', 'map', 'mapa',
              'mapn', 'mapan', 'release', 'trace', 'query', 'move_before',
              'move_after', 'move_to_head', 'move_to_tail']
        if nk != 'synth':
            ms += ['free_all', 'deep_free', 'dump_tree']
        else:
            ms += ['get', 'getn']
            if pool.nodes[h].get('def') in SETI_DEFS:
                ms += ['seti'] * 8
        m = rng.choice(ms)
        op = {'op': 'node', 'm': m, 'h': h}
        if m == 'free':
            op['send'] = rng.random() < 0.85
            pool.nodes[h]['state'] = 'freed'
        elif m == 'run':
            op['flag'] = rng.choice([True, False, 1, 0])
        elif m == 'set':
            op['args'] = arg_pairs(rng, pool, 5)
        elif m == 'setn':
            a = []
            for _ in range(rng.randint(1, 3)):
                vals = ([number(rng) for _ in range(rng.randint(1, 5))]
                        if rng.random() < 0.8 else number(rng))
                a += [ctl(rng), vals]
            op['args'] = a
        elif m == 'fill':
            a = []
            for _ in range(rng.randint(1, 3)):
                a += [ctl(rng), rng.randint(1, 8), number(rng)]
            op['args'] = a
        elif m in ('map', 'mapa', 'mapn', 'mapan'):
            pool_b = cbs if m in ('map', 'mapn') else abs_
            a = []
            for _ in range(rng.randint(1, 3)):
                if pool_b and rng.random() < 0.8:
                    bh = rng.choice(pool_b)
                    if rng.random() < 0.75:
                        b = {'$bus': bh}
                    else:
                        b = {'$busindex': bh}      # plain int index of a live bus
                else:
                    b = -1                         # unmap
                a += [ctl(rng), b]
            op['args'] = a
        elif m == 'release':
            op['time'] = rng.choice([None, None, 0, -1, 2, 0.5, 1.25, 3, -0.5])
        elif m in ('move_before', 'move_after'):
            op['t'] = rng.choice(nodes)
        elif m in ('move_to_head', 'move_to_tail'):
            if groups and rng.random() < (0.5 if multi_client else 0.7):
                op['t'] = rng.choice(groups)
            else:
                op['t'] = None      # the default group of the node's own server
        elif m == 'dump_tree':
            op['controls'] = rng.choice([True, False])
        elif m == 'seti':
            layout = SETI_DEFS[pool.nodes[h]['def']]
            op['def'] = pool.nodes[h]['def']
            a = []
            for _ in range(rng.randint(1, 3)):
                if rng.random() < 0.1:
                    name, size = 'nope', 3
                else:
                    arrs = [p for p in layout if p[1] > 1]
                    name, size = rng.choice(arrs if rng.random() < 0.85 else layout)
                off = rng.choice([-1, 0, 0, 1, size - 1, size - 1, size, size,
                                  size + 1, 10 ** 6])
                if rng.random() < 0.6:
                    val = number(rng)
                else:
                    val = [number(rng) for _ in range(rng.randint(1, size + 2))]
                a += [name, off, val]
            op['args'] = a
            stats['seti'] = True
        elif m == 'get':
            op['index'] = ctl(rng)
        elif m == 'getn':
            op['index'] = ctl(rng)
            op['count'] = rng.randint(1, 8)
        return op

    if kind == 'buffer':
        ctor = rng.choices(['init', 'consecutive', 'read', 'read_channel', 'cue',
                            'noalloc'], [8, 3, 1.5, 1, 1.5, 1])[0]
        op = {'op': 'buffer', 'ctor': ctor}
        frames = rng.choice([1, 2, 16, 1024, 32768, 44100, rng.randint(1, 100000)])
        channels = rng.choice([1, 1, 2, 4])
        if ctor == 'consecutive':
            n = rng.randint(1, 5)
            hs = [pool.new('b') for _ in range(n)]
            op.update(frames=frames, channels=channels, out=hs,
                      completion=completion(rng, pool, index=True))
            for i, h in enumerate(hs):
                pool.bufs[h] = {'state': 'live', 'frames': frames,
                                'channels': channels, 'group': hs, 'first': i == 0,
                                'server_side': True}
                pool.created_in_block.append(h)
            return op
        h = pool.new('b')
        op['out'] = h
        rec = {'state': 'live', 'frames': frames, 'channels': channels,
               'group': None, 'first': True, 'server_side': True}
        if ctor == 'init':
            op.update(frames=frames, channels=channels,
                      completion=completion(rng, pool))
        elif ctor == 'noalloc':
            op.update(frames=frames, channels=channels)
            rec['server_side'] = False
        elif ctor == 'read':
            op.update(path=rng.choice(PATHS), start=rng.choice([0, 0, 100, 4410]),
                      frames=rng.choice([-1, -1, 1000]))
            rec['frames'] = None
        elif ctor == 'read_channel':
            op.update(path=rng.choice(PATHS), start=rng.choice([0, 10]),
                      frames=rng.choice([-1, 512]),
                      chans=[rng.randint(0, 3) for _ in range(rng.randint(1, 3))])
            rec['frames'] = None
        elif ctor == 'cue':
            frames = rng.choice([32768, 65536, 2048])
            rec['frames'] = frames
            op.update(path=rng.choice(PATHS), start=rng.choice([0, 0, 44100]),
                      frames=frames, channels=channels,
                      completion=completion(rng, pool))
        pool.bufs[h] = rec
        pool.created_in_block.append(h)
        return op

    if kind == 'buf':
        h = rng.choice(bufs)
        b = pool.bufs[h]
        ms = ['free', 'free', 'zero', 'set', 'setn', 'fill', 'get', 'getn', 'query',
              'update_info', 'read', 'read_channel', 'write', 'close', 'sine1',
              'sine2', 'sine3', 'cheby', 'gen', 'normalize', 'copy_data']
        if b['frames'] is not None:
            ms += ['cue', 'cue']
        if not b['server_side']:
            ms = ['alloc', 'alloc', 'alloc_read', 'free']
        m = rng.choice(ms)
        op = {'op': 'buf', 'm': m, 'h': h}
        if m == 'free':
            if b['group'] and len(b['group']) > 1:
                # a consecutive group is freed as a group, first to last
                op = {'op': 'bufgroup_free', 'hs': list(b['group']),
                      'completion': completion(rng, pool)}
                for g in b['group']:
                    pool.bufs[g]['state'] = 'freed'
                return op
            if rng.random() < 0.08:
                # the user's completion function raises: the free must not
                # happen by halves (the buffer stays usable and owned)
                op['completion'] = {'$fn': 'raise'}
                stats['free_with_raising_completion'] = True
                return op
            op['completion'] = completion(rng, pool)
            b['state'] = 'freed'
        elif m == 'alloc':
            op['completion'] = completion(rng, pool)
            b['server_side'] = True
        elif m == 'alloc_read':
            op.update(path=rng.choice(PATHS), start=rng.choice([0, 50]),
                      frames=rng.choice([-1, 2000]),
                      completion=completion(rng, pool))
            b['server_side'] = True
            b['frames'] = None
        elif m in ('zero', 'close'):
            op['completion'] = completion(rng, pool)
        elif m == 'set':
            pr = []
            for _ in range(rng.randint(1, 4)):
                pr += [rng.randint(0, 64), number(rng)]
            op['pairs'] = pr
        elif m == 'setn':
            a = []
            for _ in range(rng.randint(1, 3)):
                vals = ([number(rng) for _ in range(rng.randint(1, 6))]
                        if rng.random() < 0.8 else number(rng))
                a += [rng.randint(0, 64), vals]
            op['args'] = a
        elif m == 'fill':
            vals = [number(rng)]
            for _ in range(rng.randint(0, 2)):
                vals += [rng.randint(0, 64), rng.randint(1, 16), number(rng)]
            op.update(start=rng.randint(0, 64), frames=rng.randint(1, 64), values=vals)
        elif m == 'get':
            op['index'] = rng.randint(0, 64)
        elif m == 'getn':
            op.update(index=rng.randint(0, 64), count=rng.randint(1, 16))
        elif m == 'read':
            op.update(path=rng.choice(PATHS), file_start=rng.choice([0, 0, 1000]),
                      frames=rng.choice([-1, -1, 500]), buf_start=rng.choice([0, 0, 8]),
                      leave_open=rng.choice([False, False, True]))
        elif m == 'read_channel':
            op.update(path=rng.choice(PATHS), file_start=rng.choice([0, 1000]),
                      frames=rng.choice([-1, 500]), buf_start=rng.choice([0, 8]),
                      leave_open=rng.choice([False, True]),
                      chans=[rng.randint(0, 3) for _ in range(rng.randint(1, 3))])
        elif m == 'cue':
            op.update(path=rng.choice(PATHS), start=rng.choice([0, 0, 10, 44100]),
                      completion=completion(rng, pool))
        elif m == 'write':
            hdr = rng.choice(['aiff', 'wav', 'flac'])
            op.update(path=f'/tmp/vf/out{rng.randint(0, 9)}.{hdr}', header=hdr,
                      sample=rng.choice(['int16', 'int24', 'float']),
                      frames=rng.choice([-1, -1, 1000]), start=rng.choice([0, 0, 64]),
                      leave_open=rng.choice([False, False, True]),
                      completion=completion(rng, pool))
        elif m in ('sine1', 'cheby'):
            op.update(amps=[number(rng, 'f32') for _ in range(rng.randint(1, 6))],
                      **_flags(rng))
        elif m == 'sine2':
            n = rng.randint(1, 4)
            op.update(freqs=[number(rng) for _ in range(n)],
                      amps=[number(rng, 'f32') for _ in range(n)], **_flags(rng))
        elif m == 'sine3':
            n = rng.randint(1, 4)
            op.update(freqs=[number(rng) for _ in range(n)],
                      amps=[number(rng, 'f32') for _ in range(n)],
                      phases=[number(rng, 'f32') for _ in range(n)], **_flags(rng))
        elif m == 'gen':
            op.update(cmd=rng.choice(['sine1', 'cheby']),
                      args=[number(rng, 'f32') for _ in range(rng.randint(1, 4))],
                      **_flags(rng))
        elif m == 'normalize':
            op.update(new_max=rng.choice([1, 0.5, 1.0, 2]),
                      as_wavetable=rng.choice([False, True]))
        elif m == 'copy_data':
            op.update(dst=rng.choice(bufs), dst_start=rng.choice([0, 16]),
                      start=rng.choice([0, 8]), num=rng.choice([-1, 128]))
        return op

    if kind == 'bufdfree':
        dead = [h for h, b in pool.bufs.items() if b['state'] == 'freed']
        if not dead:
            return again()
        stats['double_free_buffer'] = True
        return {'op': 'buf', 'm': 'free', 'h': rng.choice(dead), 'completion': None}

    if kind == 'free_all':
        for b in pool.bufs.values():
            if b['state'] in ('live', 'limbo'):
                b['state'] = 'freed_by_free_all'
        stats['free_all'] = True
        return {'op': 'free_all'}

    if kind == 'bus':
        rate = rng.choice(['control', 'control', 'audio'])
        h = pool.new('cb' if rate == 'control' else 'ab')
        ch = rng.choice([1, 1, 2, 2, 4, 8])
        pool.buses[h] = {'rate': rate, 'channels': ch, 'state': 'live', 'owns': True}
        pool.created_in_block.append(h)
        return {'op': 'bus', 'rate': rate, 'channels': ch, 'out': h}

    if kind == 'subbus':
        hs = [h for h in pool.live_buses(owns=True) if pool.buses[h]['channels'] > 1]
        if not hs:
            return again()
        p = rng.choice(hs)
        pc = pool.buses[p]['channels']
        off = rng.randint(0, pc - 1)
        ch = rng.randint(1, pc - off)
        h = pool.new('cb' if pool.buses[p]['rate'] == 'control' else 'ab')
        pool.buses[h] = {'rate': pool.buses[p]['rate'], 'channels': ch,
                         'state': 'live', 'owns': False, 'parent': p}
        return {'op': 'subbus', 'h': p, 'offset': off, 'channels': ch, 'out': h}

    if kind == 'busm':
        h = rng.choice(cbs + abs_)
        b = pool.buses[h]
        if b['rate'] == 'audio' and rng.random() > 0.3:
            return again()
        if b['rate'] == 'audio' or rng.random() < 0.15:
            if not b['owns']:
                return again()
            if not b.get('mapped') and rng.random() < 0.5:
                # the symbol is asked for (and cached by the object) while
                # the bus is alive; the free follows later in the history
                b['mapped'] = True
                return {'op': 'busq', 'm': 'as_map', 'h': h}
            b['state'] = 'freed'
            for c in pool.buses.values():       # sub-buses die with the parent
                if c.get('parent') == h:
                    c['state'] = 'dead'
            return {'op': 'busm', 'm': 'free', 'h': h}
        ch = b['channels']
        m = rng.choice(BUS_INDEX_METHODS)
        op = {'op': 'busm', 'm': m, 'h': h}
        op.update(_bus_method_fields(rng, m, ch))
        return op

    if kind == 'busq':
        h = rng.choice(cbs + abs_)          # live, sub-buses included
        pool.buses[h]['mapped'] = True
        return {'op': 'busq', 'm': 'as_map', 'h': h}

    if kind == 'busfreed':
        dead = [h for h, b in pool.buses.items() if b['state'] == 'freed']
        if not dead:
            return again()
        h = rng.choice(dead)
        b = pool.buses[h]
        pool.uaf = True
        r = rng.random()
        if r < 0.2:
            stats['double_free_bus'] = True
            return {'op': 'busm', 'm': 'free', 'h': h}
        if r < 0.55:
            # the symbol of a bus that owns no index any more
            if b.get('mapped'):
                pool.cached = True
            return {'op': 'busq', 'm': 'as_map', 'h': h}
        if r < 0.7 and nodes:
            # the freed bus object given to a mapping method of a node
            m = rng.choice(['map', 'mapn'] if b['rate'] == 'control'
                           else ['mapa', 'mapan'])
            a = [ctl(rng), {'$bus': h}]
            live = cbs if b['rate'] == 'control' else abs_
            if live and rng.random() < 0.4:
                extra = [ctl(rng), {'$bus': rng.choice(live)}]
                a = a + extra if rng.random() < 0.5 else extra + a
            return {'op': 'node', 'm': m, 'h': rng.choice(nodes), 'args': a,
                    'uaf_id_slot': True}
        if b['rate'] == 'audio':
            stats['double_free_bus'] = True
            return {'op': 'busm', 'm': 'free', 'h': h}
        m = rng.choice(BUS_INDEX_METHODS)
        op = {'op': 'busm', 'm': m, 'h': h}
        op.update(_bus_method_fields(rng, m, b['channels']))
        return op

    if kind == 'buffreed':
        dead = pool.freed_bufs()
        if not dead:
            return again()
        pool.uaf = True
        if bufs and rng.random() < 0.12:
            # a live buffer copies into a freed one
            op = {'op': 'buf', 'm': 'copy_data', 'h': rng.choice(bufs),
                  'uaf_id_slot': True}
            op.update(_buf_method_fields(rng, pool, 'copy_data', dead))
            return op
        h = rng.choice(dead)
        m = rng.choice(BUF_UNGUARDED if rng.random() < 0.35 else
                       [x for x in BUF_METHODS if x not in BUF_UNGUARDED])
        op = {'op': 'buf', 'm': m, 'h': h}
        op.update(_buf_method_fields(rng, pool, m, bufs or dead))
        if m in BUF_UNGUARDED:
            op['uaf_id_slot'] = True
        return op

    if kind == 'nodefreed':
        dead = pool.freed_nodes()
        if not dead:
            return again()
        # the client object of a freed node keeps its id: same commands
        h = rng.choice(dead)
        m = rng.choice(['free', 'set', 'run', 'trace', 'release', 'query'])
        op = {'op': 'node', 'm': m, 'h': h, 'on_freed_node': True}
        if m == 'free':
            op['send'] = True
        elif m == 'set':
            op['args'] = arg_pairs(rng, pool, 3)
        elif m == 'run':
            op['flag'] = rng.choice([True, False])
        elif m == 'release':
            op['time'] = rng.choice([None, 0, 2])
        stats['freed_node_ops'] = stats.get('freed_node_ops', 0) + 1
        return op

    if kind == 'server':
        m = rng.choice(['reorder', 'dump_osc', 'free_default_group', 'send_msg',
                        'send_bundle'])
        op = {'op': 'server', 'm': m}
        if m == 'reorder':
            if not nodes:
                return again()
            op.update(nodes=[rng.choice(nodes) for _ in range(rng.randint(1, 4))],
                      target=target(rng, pool, int_ok=int_ok),
                      action=rng.choice(ACTIONS[:4] + ACTIONS[5:9] + [0, 1, 2, 3]))
            if multi_client and op['target'] is None:
                op['target'] = {'$server': True}
        elif m == 'dump_osc':
            op['code'] = rng.randint(0, 3)
        elif m == 'send_msg':
            buses = cbs + abs_
            if nodes and buses and rng.random() < 0.5:
                # a hand-written command that names buses by their symbols
                fb = pool.freed_buses()
                def sym():
                    if fb and rng.random() < 0.15:
                        h = rng.choice(fb)
                        pool.uaf = True
                        if pool.buses[h].get('mapped'):
                            pool.cached = True
                    else:
                        h = rng.choice(buses)
                        pool.buses[h]['mapped'] = True
                    return {'$map': h}
                if rng.random() < 0.6:
                    op['msg'] = ['/n_set', {'$node': rng.choice(nodes)}, ctl(rng), sym()]
                    if rng.random() < 0.3:
                        op['msg'] += [ctl(rng), sym()]
                else:
                    op['msg'] = ['/n_setn', {'$node': rng.choice(nodes)}, ctl(rng), 2,
                                 sym(), number(rng)]
            elif nodes:
                op['msg'] = ['/n_trace', {'$node': rng.choice(nodes)}]
            else:
                op['msg'] = ['/status']
        elif m == 'send_bundle':
            msgs = []
            for _ in range(rng.randint(1, 3)):
                if nodes:
                    msgs.append(['/n_run', {'$node': rng.choice(nodes)},
                                 rng.choice([0, 1])])
                else:
                    msgs.append(['/sync', rng.randint(0, 99)])
            op['msgs'] = msgs
            op['time'] = rng.choice([None, 0, 0.1, 0.2])
            if nrt and not in_bind and op['time']:
                op['time'] = 0      # keeps every NRT score entry at time 0
        return op
    raise AssertionError(kind)


def _flags(rng):
    return dict(normalize=rng.choice([True, False]),
                as_wavetable=rng.choice([True, False]),
                clear_first=rng.choice([True, False]))


def gen_program(rng, multi_client=False, nrt=True):
    """Returns (program, stats)."""
    pool = Pool()
    stats = {'add_actions': set()}
    length = rng.choice([rng.randint(3, 12), rng.randint(8, 40),
                         rng.randint(20, 90)])
    p_bind = rng.choice([0.0, 0.08, 0.2])
    prog = []
    nops = 0
    while nops < length:
        if rng.random() < p_bind:
            n = rng.randint(0, 8)
            fail = rng.random() < 0.4
            pool.created_in_block = []
            nodes_before = set(pool.live_nodes())
            ops = []
            raise_at = None
            propagate = False
            if fail:
                raise_at = rng.randint(0, n)
            for k in range(n if raise_at is None else raise_at):
                ops.append(gen_op(rng, pool, True, stats, multi_client, nrt))
            if fail and rng.random() < 0.3:
                # let a documented library exception escape the block instead
                dead = [h for h, b in pool.buses.items()
                        if b['state'] == 'freed' and b['rate'] == 'control']
                if dead:
                    ops.append({'op': 'busm', 'm': 'set', 'h': rng.choice(dead),
                                'values': [1.0]})
                    propagate = True
                    raise_at = None
            exit_fault = None
            if not fail and rng.random() < 0.15:
                # the send at block exit fails: an argument the OSC encoder
                # rejects, or (RT) a fault of the socket stand-in
                exit_fault = 'unencodable' if nrt or rng.random() < 0.5 else 'socket'
                if exit_fault == 'unencodable':
                    live = [h for h in pool.live_nodes() if h in nodes_before]
                    if live and rng.random() < 0.6:
                        poison = {'op': 'node', 'm': 'set', 'h': rng.choice(live),
                                  'args': ['seed', 2 ** 40]}
                    else:
                        poison = {'op': 'server', 'm': 'send_msg',
                                  'msg': ['/dumpOSC', 2 ** 40]}
                    ops.insert(rng.randint(0, len(ops)), poison)
                fail = True          # nothing of this block reaches the server
                stats['exit_fault_blocks'] = stats.get('exit_fault_blocks', 0) + 1
            item = {'bind': ops, 'raise_at': raise_at, 'propagate': propagate,
                    'exit_fault': exit_fault}
            if fail:
                for h in pool.created_in_block:
                    for tbl in (pool.nodes, pool.bufs, pool.buses):
                        if h in tbl:
                            tbl[h]['state'] = 'limbo'
                stats['failed_blocks'] = stats.get('failed_blocks', 0) + 1
            else:
                stats['ok_blocks'] = stats.get('ok_blocks', 0) + 1
            pool.created_in_block = []
            prog.append(item)
            nops += len(ops) + 1
        else:
            pool.created_in_block = []
            prog.append(gen_op(rng, pool, False, stats, multi_client, nrt))
            nops += 1
    stats['add_actions'] = sorted(stats['add_actions'])
    return prog, stats


def gen_sync_program(rng):
    """One bind() block run inside a routine, with 0-3 `yield from
    server.sync()` points between its commands (the form documented in
    Server.bind), optionally raising after a random command.

    {'pre': [ops outside the block], 'sections': [[ops], ...],
     'sync_elements': [None | [msg, ...]] one per sync point,
     'raise_at': section index | None (raise after that section's ops),
     'clock': 'system' | 'app'}
    """
    pool = Pool()
    stats = {'add_actions': set()}

    def op(in_bind):
        for _ in range(50):
            o = gen_op(rng, pool, in_bind, stats, False, False)
            # Buffer.free_all has no defined order; keep sections strictly ordered
            if o['op'] == 'free_all':
                continue
            # judged per method in the other shards (a command that must not
            # exist would only be seen as a difference of whole sections here)
            if o.get('uaf_id_slot'):
                continue
            # a top-level /sync would be mistaken for a sync point on the wire
            if o['op'] == 'server' and o['m'] == 'send_bundle' and \
                    any(m[0] == '/sync' for m in o['msgs']):
                continue
            return o
        raise AssertionError('no op')

    pre = [op(False) for _ in range(rng.randint(0, 8))]
    nsync = rng.choice([0, 1, 1, 2, 2, 3])
    sizes = [rng.choice([0, 1, 1, 2, 3, 4]) for _ in range(nsync + 1)]
    raise_at = None
    if rng.random() < 0.3:
        raise_at = rng.randint(0, nsync)
        sizes = sizes[:raise_at + 1]
        sizes[-1] = rng.randint(0, sizes[-1])
    sections = []
    elements = []
    for k, n in enumerate(sizes):
        if k > 0:
            # messages that travel with the /sync of this sync point
            if rng.random() < 0.2:
                nodes = pool.live_nodes()
                if nodes:
                    elements.append([['/n_trace', {'$node': rng.choice(nodes)}]
                                     for _ in range(rng.randint(1, 2))])
                else:
                    elements.append([['/status']])
            else:
                elements.append(None)
        sections.append([op(True) for _ in range(n)])
    stats['add_actions'] = sorted(stats['add_actions'])
    return {'pre': pre, 'sections': sections, 'sync_elements': elements,
            'raise_at': raise_at, 'clock': rng.choice(['system', 'system', 'app'])}, stats


def _no_toplevel(o, names=('/status', '/sync', '/notify')):
    """Workload commands that would be mistaken for the library's own
    background traffic are left out of the shards that watch for it."""
    if o['op'] == 'server' and o['m'] == 'send_msg':
        return o['msg'][0] not in names
    if o['op'] == 'server' and o['m'] == 'send_bundle':
        return all(m[0] not in names for m in o['msgs'])
    return True


def gen_alive_program(rng, period=0.7):
    """A bind() block that stays open for longer than the status watcher's
    ping period while the server's alive routine is running."""
    pool = Pool()
    stats = {'add_actions': set()}

    def op(in_bind):
        for _ in range(50):
            o = gen_op(rng, pool, in_bind, stats, True, False)
            if _no_toplevel(o):
                return o
        raise AssertionError('no op')

    prog = [op(False) for _ in range(rng.randint(0, 3))]
    pool.created_in_block = []
    ops = [op(True) for _ in range(rng.randint(1, 5))]
    hold = {'op': 'hold', 'secs': round(period * rng.uniform(1.08, 1.3), 3)}
    ops.insert(rng.randint(0, len(ops)), hold)
    raise_at = len(ops) if rng.random() < 0.25 else None
    if raise_at is not None:
        for h in pool.created_in_block:
            for tbl in (pool.nodes, pool.bufs, pool.buses):
                if h in tbl:
                    tbl[h]['state'] = 'limbo'
    pool.created_in_block = []
    prog.append({'bind': ops, 'raise_at': raise_at, 'propagate': False,
                 'exit_fault': None})
    prog += [op(False) for _ in range(rng.randint(1, 3))]
    stats['add_actions'] = sorted(stats['add_actions'])
    return prog, stats


def gen_big_program(rng):
    """A bind() block whose commands do not fit one UDP datagram (65504
    bytes): several thousand small node/bus/buffer commands and a few large
    ones."""
    pool = Pool()
    stats = {'add_actions': set()}
    prog = []
    nodes = []
    for k in range(rng.randint(2, 5)):
        h = pool.new('n')
        pool.nodes[h] = {'kind': 'group' if k == 0 else 'synth', 'state': 'live'}
        nodes.append(h)
        if k == 0:
            prog.append({'op': 'group', 'cls': 'Group', 'ctor': 'init',
                         'target': None, 'action': 'addToHead', 'out': h})
        else:
            prog.append({'op': 'synth', 'ctor': 'init', 'def': rng.choice(DEFS),
                         'args': ['freq', 100 * k], 'target': {'$node': nodes[0]},
                         'action': 'addToTail', 'out': h})
    bh = pool.new('b')
    prog.append({'op': 'buffer', 'ctor': 'init', 'out': bh, 'frames': 65536,
                 'channels': 1, 'completion': None})
    ch = pool.new('cb')
    prog.append({'op': 'bus', 'rate': 'control', 'channels': 8, 'out': ch})
    n = rng.choice([2200, 3000, 4200, 6000])
    big_at = set(rng.sample(range(n), rng.randint(2, 5)))
    ops = []
    for k in range(n):
        if k in big_at:
            m = rng.randint(300, 1900)
            vals = [float(rng.choice(F32)) for _ in range(m)]
            if rng.random() < 0.7:
                ops.append({'op': 'buf', 'm': 'setn', 'h': bh,
                            'args': [rng.randint(0, 1000), vals]})
            else:
                ops.append({'op': 'node', 'm': 'setn', 'h': rng.choice(nodes),
                            'args': [rng.randint(0, 8), vals]})
            continue
        r = rng.random()
        h = rng.choice(nodes)
        if r < 0.45:
            ops.append({'op': 'node', 'm': 'set', 'h': h,
                        'args': [ctl(rng), k, ctl(rng), number(rng)][:rng.choice([2, 4])]})
        elif r < 0.6:
            ops.append({'op': 'node', 'm': 'run', 'h': h, 'flag': k % 2})
        elif r < 0.7:
            ops.append({'op': 'node', 'm': 'map', 'h': h, 'args': [ctl(rng), {'$bus': ch}]})
        elif r < 0.8:
            ops.append({'op': 'node', 'm': 'move_to_tail', 'h': h, 't': nodes[0]})
        elif r < 0.9:
            ops.append({'op': 'busm', 'm': 'set_at', 'h': ch, 'offset': k % 8,
                        'values': [number(rng)]})
        else:
            ops.append({'op': 'buf', 'm': 'set', 'h': bh,
                        'pairs': [k % 65536, number(rng)]})
    raise_at = n if rng.random() < 0.12 else None
    prog.append({'bind': ops, 'raise_at': raise_at, 'propagate': False,
                 'exit_fault': None})
    prog.append({'op': 'node', 'm': 'trace', 'h': nodes[0]})
    return prog, stats


def gen_stream_case(rng):
    """A multi-chunk Buffer stream (send_list: /b_setn chunks of 1626 samples;
    get_to_list: /b_getn requests of 1633) whose routine overlaps a bind()
    block: started inside the block and continuing after it, started before
    the block and continuing inside it, or started by a routine that keeps
    its block open while it yields."""
    kind = rng.choice(['send_list', 'send_list', 'get_to_list'])
    chunk = 1626 if kind == 'send_list' else 1633
    nchunks = rng.randint(3, 6)
    n = chunk * (nchunks - 1) + rng.randint(1, chunk)
    channels = rng.choice([1, 1, 2])
    if kind == 'send_list':
        n -= n % channels
    start = rng.choice([0, 0, 7, 100])
    return {'kind': kind, 'n': n, 'channels': channels, 'start': start,
            'values_seed': rng.getrandbits(32),
            'wait': rng.choice([0.02, 0.03, 0.05]),
            'form': rng.choice(['start-inside', 'start-outside', 'routine-block',
                                'no-block']),
            'hold': rng.uniform(1.2, 2.6),
            'clock': rng.choice(['system', 'system', 'app'])}


# ---------------------------------------------------------------------------
# nested bind() blocks (round 8)

def _plain_op(rng, pool, stats, multi_client, nrt):
    """One op whose messages are strictly ordered and counted in advance (the
    nested-block oracle compares whole wire sequences first)."""
    for _ in range(80):
        o = gen_op(rng, pool, True, stats, multi_client, False)
        if o['op'] == 'free_all':                 # no defined order
            continue
        if o.get('uaf_id_slot'):                  # judged per method elsewhere
            continue
        if o['op'] == 'node' and o['m'] == 'seti':      # may send nothing at all
            continue
        if o['op'] == 'server' and o['m'] == 'send_bundle':
            if any(m[0] == '/sync' for m in o['msgs']):
                continue                          # would look like a sync point
            if nrt:
                o['time'] = rng.choice([None, 0])  # NRT score entries stay at 0
        if o['op'] == 'server' and o['m'] == 'send_msg' and o['msg'][0] == '/sync':
            continue
        return o
    raise AssertionError('no op')


def gen_nested_case(rng, mode):
    """bind() blocks inside bind() blocks, 2-3 levels deep, on one server or
    alternating between two, entered from the main thread or (RT) from a
    routine, with harness exceptions raised at an arbitrary point of any
    block and caught directly around any block of the chain (`catch`), so
    that the enclosing blocks go on and exit normally or fail later
    themselves; in routines `yield from server.sync()` (with and without
    elements) and plain waits at any level.

    {'where': 'main' | 'routine', 'clock', 'servers': 1 | 2,
     'pre': [item], 'root': block, 'post': [item]}
    block = {'srv': k, 'depth': d, 'catch': bool, 'raise_at': n | None,
             'items': [item]}          raise_at: after the last item
    item  = {'do': op, 'srv': k} | {'block': block}
          | {'sync': None | [msg, ...], 'srv': k} | {'wait': seconds}
    An op addresses the objects of server `srv`, which need not be the server
    of the innermost block: its commands belong to the innermost open block
    of *its* server, or go out directly when that server has none."""
    nrt = mode == 'nrt'
    nsrv = 2 if rng.random() < 0.45 else 1
    where = 'main' if nrt or rng.random() < 0.45 else 'routine'
    pools = [Pool() for _ in range(nsrv)]
    stats = {'add_actions': set()}
    info = {'blocks': 0, 'failed_blocks': 0, 'max_depth': 0, 'syncs': 0,
            'syncs_in_inner_blocks': 0, 'caught_inside_an_outer_block': 0,
            'foreign_server_ops': 0}

    def op(s):
        return {'do': _plain_op(rng, pools[s], stats, s == 1, nrt), 'srv': s}

    def sync_item(s, depth):
        el = None
        if rng.random() < 0.25:
            nodes = pools[s].live_nodes()
            el = ([['/n_trace', {'$node': rng.choice(nodes)}]
                   for _ in range(rng.randint(1, 2))] if nodes else [['/status']])
        info['syncs'] += 1
        if depth >= 1:
            info['syncs_in_inner_blocks'] += 1
        return {'sync': el, 'srv': s}

    max_depth = rng.choice([2, 2, 3])

    def block(depth, srv):
        info['blocks'] += 1
        info['max_depth'] = max(info['max_depth'], depth + 1)
        marks = [len(p.created_in_block) for p in pools]
        n = rng.randint(0 if depth else 1, 5)
        raise_at = rng.randint(0, n) if rng.random() < (0.45 if depth else 0.2) else None
        catch = depth == 0 or rng.random() < 0.7
        forced = rng.randrange(n) if depth == 0 and n and rng.random() < 0.85 else None
        items = []
        propagated = False
        for k in range(n if raise_at is None else raise_at):
            r = rng.random()
            if depth + 1 < max_depth and (k == forced or r < 0.28):
                cs = srv if nsrv == 1 or rng.random() < 0.6 else 1 - srv
                child, outcome = block(depth + 1, cs)
                items.append({'block': child})
                if outcome == 'raised':
                    propagated = True
                    break
            elif where == 'routine' and r < 0.42:
                items.append(sync_item(srv if rng.random() < 0.75
                                       else rng.randrange(nsrv), depth))
            elif where == 'routine' and r < 0.47:
                items.append({'wait': rng.choice([0.0, 0.001, 0.003])})
            else:
                s = srv if nsrv == 1 or rng.random() < 0.75 else 1 - srv
                if s != srv:
                    info['foreign_server_ops'] += 1
                items.append(op(s))
        if propagated:
            raise_at = None
        fails = propagated or raise_at is not None
        if fails:
            info['failed_blocks'] += 1
            # conservative: nothing created since this block was entered is
            # used again (of either server)
            for p, mk in zip(pools, marks):
                for h in p.created_in_block[mk:]:
                    for tbl in (p.nodes, p.bufs, p.buses):
                        if h in tbl:
                            tbl[h]['state'] = 'limbo'
            if catch and depth:
                info['caught_inside_an_outer_block'] += 1
        blk = {'srv': srv, 'depth': depth, 'catch': catch, 'raise_at': raise_at,
               'items': items}
        return blk, ('ok' if not fails else 'caught' if catch else 'raised')

    pre = [op(rng.randrange(nsrv)) for _ in range(rng.randint(0, 6))]
    root, outcome = block(0, rng.randrange(nsrv))
    info['root_outcome'] = outcome
    post = [op(rng.randrange(nsrv)) for _ in range(rng.randint(1, 3))]
    stats['add_actions'] = sorted(stats['add_actions'])
    case = {'where': where, 'clock': rng.choice(['system', 'system', 'app']),
            'servers': nsrv, 'pre': pre, 'root': root, 'post': post}
    return case, info
