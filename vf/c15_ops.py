"""Enumeration (by introspection) of every operator entry point of the library
for C15: the operator methods of AbstractObject and the decorated builtins of
sc3.base.builtins.  Imported in workers only (needs sc3).

A method's numeric selector is found by calling the unbound method on a probe
object whose composition hooks just report what they were given; nothing is
assumed about which selector a method uses, except (separate monitor) that its
name agrees with the method's name.
"""

import inspect
import math
import operator

HOOKS = ('_compose_unop', '_compose_binop', '_rcompose_binop', '_compose_narop')

# Python spelling of the special methods: how a user applies them
DUNDER_CALL = {
    '__neg__': operator.neg, '__pos__': operator.pos, '__abs__': abs,
    '__invert__': operator.invert, '__trunc__': math.trunc,
    '__ceil__': math.ceil, '__floor__': math.floor, '__round__': round,
    '__add__': operator.add, '__sub__': operator.sub, '__mul__': operator.mul,
    '__truediv__': operator.truediv, '__floordiv__': operator.floordiv,
    '__mod__': operator.mod, '__pow__': operator.pow,
    '__lshift__': operator.lshift, '__rshift__': operator.rshift,
    '__and__': operator.and_, '__or__': operator.or_, '__xor__': operator.xor,
    '__lt__': operator.lt, '__le__': operator.le, '__eq__': operator.eq,
    '__ne__': operator.ne, '__gt__': operator.gt, '__ge__': operator.ge,
}
for _n in ('add', 'sub', 'mul', 'truediv', 'floordiv', 'mod', 'pow', 'lshift',
           'rshift', 'and', 'or', 'xor'):
    DUNDER_CALL[f'__r{_n}__'] = DUNDER_CALL[f'__{_n}__']

# method name -> acceptable selector names (only the spellings that differ)
NAME_ALIASES = {
    'and': 'and_', 'or': 'or_', 'not': 'not_', 'bitand': 'and_', 'bitor': 'or_',
    'bitxor': 'xor', 'bitnot': 'invert',
}


class Sentinel:
    def __init__(self, i):
        self.i = i


def _probe_class():
    from sc3.base import absobject as aob

    class Probe(aob.AbstractObject):
        def _compose_unop(self, sel):
            return ('unop', sel, ())

        def _compose_binop(self, sel, other):
            return ('binop', sel, (other,))

        def _rcompose_binop(self, sel, other):
            return ('rbinop', sel, (other,))

        def _compose_narop(self, sel, *args):
            return ('narop', sel, args)
    return Probe


def method_entries():
    """[{name, hook, selector, nreq, nopt, const_args}] for every operator
    method found in vars(AbstractObject)."""
    from sc3.base import absobject as aob
    Probe = _probe_class()
    out = []
    for name, fn in vars(aob.AbstractObject).items():
        if not callable(fn) or name in HOOKS or name == '__hash__':
            continue
        params = list(inspect.signature(fn).parameters.values())[1:]
        # trailing string option (clip='minmax') is not an operand
        operands = [p for p in params if not isinstance(p.default, str)]
        req = [p for p in operands if p.default is inspect.Parameter.empty]
        opt = [p for p in operands if p.default is not inspect.Parameter.empty]
        sent = [Sentinel(i) for i in range(len(operands))]
        hook, sel, passed = fn(Probe(), *sent)
        # positions of operands among the selector's arguments; constants
        # (e.g. __trunc__ -> (trunc, 1)) are kept as given
        template = [('arg', a.i) if isinstance(a, Sentinel) else ('const', a)
                    for a in passed]
        defaults = [p.default for p in opt]
        out.append({'name': name, 'hook': hook, 'selector': sel,
                    'nreq': len(req), 'nopt': len(opt), 'template': template,
                    'opt_defaults': defaults,
                    'dunder': name.startswith('__')})
    return out


def selector_name_ok(entry):
    name = entry['name']
    base = name.strip('_')
    if entry['hook'] == 'rbinop' and base.startswith('r'):
        base = base[1:]
    want = NAME_ALIASES.get(base, base)
    got = getattr(entry['selector'], '__name__', '?')
    return got in (want, want + '_', want.rstrip('_')), want, got


def _inner(fn):
    for name, cell in zip(fn.__code__.co_freevars, fn.__closure__ or ()):
        if name == 'func':
            return cell.cell_contents
    return None


def builtin_entries():
    """[{name, arity, wrapper, func, nreq, nopt, random}] for every function of
    sc3.base.builtins produced by the scbuiltin decorators."""
    from sc3.base import builtins as bi
    ents = []
    for name, fn in vars(bi).items():
        qn = getattr(fn, '__qualname__', '')
        if not (callable(fn) and qn.startswith('scbuiltin.')):
            continue
        arity = qn.split('.')[1]
        func = _inner(fn)
        params = list(inspect.signature(func).parameters.values())
        operands = [p for p in params[1:] if not isinstance(p.default, str)
                    and p.kind == p.POSITIONAL_OR_KEYWORD]
        req = [p for p in operands if p.default is inspect.Parameter.empty]
        opt = [p for p in operands if p.default is not inspect.Parameter.empty]
        ents.append({'name': name, 'arity': arity, 'wrapper': fn, 'func': func,
                     'nreq': len(req), 'nopt': len(opt),
                     'opt_defaults': [p.default for p in opt]})
    # random kernels: use the generator directly or call a random kernel
    byname = {e['name']: e for e in ents}
    rnd = {e['name'] for e in ents if '_rgen' in e['func'].__code__.co_names}
    changed = True
    while changed:
        changed = False
        for e in ents:
            if e['name'] not in rnd and \
                    set(e['func'].__code__.co_names) & rnd:
                rnd.add(e['name'])
                changed = True
    for e in ents:
        e['random'] = e['name'] in rnd
    return ents


def random_selector(sel, builtin_ents):
    for e in builtin_ents:
        if sel is e['wrapper'] or sel is e['func']:
            return e['random']
    return False
