"""C16 - bus, buffer and node-id allocation is safe and complete.

Reference-model monitor.  vf/model_alloc.py (no sc3 import) keeps one boolean
per address of the client's partition and *judges* every answer of the real
allocator (any correct placement is accepted, so the allocator's internal
random tie-breaks cannot cause alarms):

  direct    sc3.synth._engine.ContiguousBlockAllocator(size, reserved, offset)
            under histories of alloc(n) / free / double free / free of
            never-allocated, interior and reserved addresses / free(None);
            after every operation blocks() must equal the model's live set.
  objects   the same through AudioBus / ControlBus / Buffer /
            Buffer.new_consecutive constructors and .free() on a server whose
            options (bus / buffer counts, reserved numbers, io channels,
            max_logins) and client id vary per case.
  faults    (round 7, vf/c16_faults.py) client objects whose construction or
            freeing FAILS HALF WAY, followed by continued allocation: every
            Buffer constructor spelling (__init__, frames=None, new_cue,
            new_read, new_read_channel, new_consecutive with the fault at any
            member) with an automatic number or a number named by the caller
            (bufnum= the start / the interior of a live range, a free number,
            a foreign number) whose completion function raises, returns or is
            a message the OSC encoder refuses, or whose argument cannot be
            sent; Buffer(alloc=False) followed by a failing alloc / alloc_read
            / alloc_read_channel and a retry; frees whose completion function
            raises, also of one member of a consecutive group; objects made
            for an explicit number (AudioBus/ControlBus index=, sub_bus,
            new_from, Buffer bufnum=, new_consecutive bufnum=) and their free
            when the number is not the start of a live range;
            Buffer.free_all.  Oracle: the failed operation handed nothing to
            the caller, so the allocator's live set must be the model's -
            except that ONE range of the requested length which a failed
            AUTOMATIC constructor took itself may be kept (it is then live in
            the model: never handed out again) or returned; a caller's number
            is never the failed object's to release; an object the caller
            still holds is intact or fully freed.  The history then continues
            (allocations are judged against the same model, so a number
            released behind a live object's back is also seen when it is
            handed out twice).
  nodeid    NodeIDAllocator(user, first) and Server._next_node_id / Group /
            Synth ids: distinct within the id window (first ids close to 2**26
            so the wrap-around is reached), inside the client's 26-bit range,
            and the allocator's declared id_offset()/num_ids and the server's
            per-client default group ids agree with that range.
  reserve   (round 7b, vf/c16_extra.py) ContiguousBlockAllocator.reserve(
            address, size, warn) inside alloc / free / double free histories:
            a range of the partition without a live address must become live
            (exactly that range), a range with a live address (same range,
            same start with another length, interior, running into a live
            range, covering it) must be refused with the live set unchanged;
            reserved ranges are live for the bitmap model, so later alloc()
            answers, free(start) and the "no space" verdicts are judged
            against them.
  perm      (round 7b) NodeIDAllocator.alloc_perm() / free_perm() interleaved
            with alloc(): permanent ids pairwise distinct while live, inside
            [user*2**26 + 2, user*2**26 + first temporary id) - never a
            temporary id, also after the temporary ids wrapped - freed ones
            may come back, free_perm of a temporary id changes nothing.
  numalloc  (round 7b) PowerOfTwoAllocator, LRUNumberAllocator,
            StackNumberAllocator, RingNumberAllocator under alloc / free
            histories against reference models of their discipline
            (vf/model_alloc.py): never a live range / number again, inside
            the range, "none" only when the discipline has none, freed
            blocks / numbers available again.
"""

from vf.common import iter_cases, case_rng, h64, split, short_tb, tb_sites
from vf.c16_faults import (gen_fault, pick_number, adopt_kept, SINGLE_CTORS,
                           DEFERRED_ALLOCS)

LEVEL = 'exploration'
RULE = ("seeded random histories (1-500 operations) of alloc(n) / free / double "
        "free / free of unknown, interior and reserved addresses over partition "
        "sizes 1-256, reserved offsets 0-8 and client ids 0-31 (address offset = "
        "size*client [+ io offset]), on the allocator directly and through "
        "AudioBus/ControlBus/Buffer constructors with max_logins 1-8; node-id "
        "runs of up to 3 windows with the first id close to 2**26.  About 16 % "
        "of the object operations are faults (failing constructors of every "
        "spelling with automatic / explicit live, interior, free or foreign "
        "numbers, failing deferred allocs and frees, explicit-number objects, "
        "free_all) after which the history continues.  A history "
        "is non-trivial when it frees a live range that has a free neighbour "
        "(coalescing needed) and allocates successfully afterwards, or (node "
        "ids) wraps at least once; distinct = hash of configuration + operations.  "
        "Round 7b: the same direct histories with 25-60 % reserve(address, size) "
        "calls (free run whole/head/tail/middle, 7 kinds of overlap with a live "
        "range, uniform), non-trivial when a free range was reserved, an alloc "
        "was judged with it live and a coalescing free happened; node-id "
        "histories mixing alloc / alloc_perm / free_perm (first temporary id 3-64, "
        "100-5000 or close to 2**26), non-trivial when a freed permanent id came "
        "back or permanent ids were judged after a wrap; alloc / free histories "
        "of the power-of-two, LRU, stack and ring allocators, non-trivial when a "
        "freed block / number was handed out again (ring: wrapped)")
ASSUMPTIONS = [
    "vf/model_alloc.py BitmapModel is the meaning of safe/complete allocation: "
    "partition = [offset+reserved, offset+size), one boolean per address",
    "per-client partition layout follows the SuperCollider convention "
    "(count // max_logins per client, client offset = per-client count * "
    "client id, audio buses after the hardware io channels)",
    "a client's node id range is [client*2**26 + initial_node_id, "
    "(client+1)*2**26) (26 bits per client)",
    "allocator tie-breaks use main's random generator, re-seeded per case",
    "a number that a failed constructor took from the allocator itself may be "
    "kept by the allocator (leak, counted in object_failed_constructor_numbers_"
    "kept_by_allocator) or returned: the statement is about ranges handed out, "
    "both are accepted; a number named by the caller is never the failed "
    "object's to release",
    "the alias of the START of a live range (Bus(index=start).free()) is a "
    "free the caller asked for and not exercised; members of a consecutive "
    "group are freed as a group (documented restriction)",
    "reserve(address, size) is judged for ranges inside the client's partition "
    "with size >= 1 only (what the sclang help documents); a refusal may be "
    "None or an exception as long as the live set is unchanged; a range "
    "without a live address must be reserved",
    "permanent node ids: zone [user*2**26 + 2, user*2**26 + first temporary "
    "id) (0 = root node, 1 = the client's default group); with every id of the "
    "zone live no correct answer exists and only the zone is judged; free_perm "
    "of a permanent id that was never handed out is not exercised",
    "PowerOfTwoAllocator discipline (sclang): lengths rounded up to a power of "
    "two, blocks never split or merged, a freed block serves its own size "
    "class only, new blocks from the untouched end of [pos, size); LRU pool "
    "holds hi - lo numbers, stack pool hi - lo + 1, ring cycles [lo, hi]; "
    "double frees of the number pools are not exercised (undocumented)",
]
MIN_COUNTERS = {
    'quick': {'allocs_judged': 100_000, 'none_answers_judged': 10_000,
              'none_answers_offset_zero': 1000, 'none_answers_offset_nonzero': 1000,
              'frees_judged': 50_000, 'coalescing_frees': 10_000,
              'blocks_compared': 100_000, 'object_allocs_judged': 10_000,
              'object_none_answers_judged': 500, 'node_ids_judged': 50_000,
              'node_id_wraps': 200, 'default_group_checks': 50,
              'object_histories_reported_max_logins_differs': 500,
              'outside_partition_frees': 5000, 'object_outside_partition_frees': 300,
              'object_frees_whose_send_fails': 300,
              'object_failed_ctors': 5000,
              'object_failed_ctors_explicit_number_live': 2000,
              'object_failed_ctors_explicit_number_live_interior': 150,
              'object_failed_ctors_explicit_number_free': 800,
              'object_failed_ctors_explicit_number_foreign': 500,
              'object_failed_ctors_automatic_number': 1000,
              'object_failed_ctors_via_new_consecutive': 1000,
              'object_failed_ctors_via_new_cue': 400,
              'object_failed_ctors_via_new_read': 400,
              'object_failed_ctors_via_new_read_channel': 400,
              'object_failed_ctors_via_init_frames_none': 400,
              'object_failed_deferred_allocs': 1000,
              'object_frees_whose_completion_function_fails': 200,
              'object_group_frees_whose_send_fails': 800,
              'object_explicit_number_ctors': 2000,
              'object_explicit_number_frees': 500,
              'object_free_all_calls': 100,
              'object_allocs_after_failed_operation': 10_000,
              'reserve_calls_judged': 100_000,
              'reserve_free_ranges_judged': 40_000,
              'reserve_free_ranges_inside_a_free_block': 8_000,
              'reserve_occupied_ranges_judged': 40_000,
              'reserve_variant_same_range': 3_000,
              'reserve_variant_same_start_shorter': 3_000,
              'reserve_variant_same_start_longer': 3_000,
              'reserve_variant_interior': 3_000,
              'reserve_variant_runs_into_from_left': 3_000,
              'reserve_variant_starts_inside_ends_after': 3_000,
              'reserve_variant_covers': 3_000,
              'reserve_allocs_judged_with_reserved_ranges_live': 30_000,
              'reserve_none_answers_with_reserved_ranges_live': 5_000,
              'reserve_frees_of_reserved_ranges': 20_000,
              'reserve_history_coalescing_frees': 20_000,
              'reserve_histories_offset_zero': 200,
              'reserve_histories_offset_nonzero': 1_000,
              'perm_ids_judged': 100_000,
              'perm_ids_reused_after_free': 30_000,
              'perm_ids_judged_after_temporary_wrap': 10_000,
              'perm_frees_of_temporary_ids': 5_000,
              'perm_double_frees': 1_000,
              'perm_histories_user_nonzero': 1_000,
              'model_selftest': 1},
    'thorough': {'allocs_judged': 5_000_000, 'none_answers_judged': 500_000,
                 'none_answers_offset_zero': 100_000,
                 'none_answers_offset_nonzero': 100_000,
                 'frees_judged': 2_500_000, 'coalescing_frees': 500_000,
                 'blocks_compared': 5_000_000, 'object_allocs_judged': 250_000,
                 'object_none_answers_judged': 10_000, 'node_ids_judged': 1_000_000,
                 'node_id_wraps': 2500, 'default_group_checks': 1000,
                 'object_histories_reported_max_logins_differs': 20_000,
                 'outside_partition_frees': 200_000,
                 'object_outside_partition_frees': 10_000,
                 'object_frees_whose_send_fails': 10_000,
                 'object_failed_ctors': 100_000,
                 'object_failed_ctors_explicit_number_live': 40_000,
                 'object_failed_ctors_explicit_number_live_interior': 3000,
                 'object_failed_ctors_explicit_number_free': 15_000,
                 'object_failed_ctors_explicit_number_foreign': 10_000,
                 'object_failed_ctors_automatic_number': 20_000,
                 'object_failed_ctors_via_new_consecutive': 20_000,
                 'object_failed_ctors_via_new_cue': 8000,
                 'object_failed_ctors_via_new_read': 8000,
                 'object_failed_ctors_via_new_read_channel': 8000,
                 'object_failed_ctors_via_init_frames_none': 8000,
                 'object_failed_deferred_allocs': 20_000,
                 'object_frees_whose_completion_function_fails': 4000,
                 'object_group_frees_whose_send_fails': 15_000,
                 'object_explicit_number_ctors': 40_000,
                 'object_explicit_number_frees': 10_000,
                 'object_free_all_calls': 2000,
                 'object_allocs_after_failed_operation': 200_000,
                 'reserve_calls_judged': 500_000,
                 'reserve_free_ranges_judged': 200_000,
                 'reserve_free_ranges_inside_a_free_block': 40_000,
                 'reserve_occupied_ranges_judged': 200_000,
                 'reserve_variant_same_range': 15_000,
                 'reserve_variant_same_start_shorter': 15_000,
                 'reserve_variant_same_start_longer': 15_000,
                 'reserve_variant_interior': 15_000,
                 'reserve_variant_runs_into_from_left': 15_000,
                 'reserve_variant_starts_inside_ends_after': 15_000,
                 'reserve_variant_covers': 15_000,
                 'reserve_allocs_judged_with_reserved_ranges_live': 150_000,
                 'reserve_none_answers_with_reserved_ranges_live': 25_000,
                 'reserve_frees_of_reserved_ranges': 100_000,
                 'reserve_history_coalescing_frees': 100_000,
                 'reserve_histories_offset_zero': 1_000,
                 'reserve_histories_offset_nonzero': 5_000,
                 'perm_ids_judged': 500_000,
                 'perm_ids_reused_after_free': 150_000,
                 'perm_ids_judged_after_temporary_wrap': 50_000,
                 'perm_frees_of_temporary_ids': 25_000,
                 'perm_double_frees': 5_000,
                 'perm_histories_user_nonzero': 5_000,
                 'model_selftest': 1},
}


def plan(tier, seed):
    quick = tier == 'quick'
    # thorough: the 16 shards of the first three workloads fill the 16 workers
    # for 400 s, the 8 shards of the round-7b workloads follow for 130 s
    secs = 35 if quick else 400
    shards = []
    nd = 100_000 if quick else 3_000_000
    for p, (f, n) in enumerate(split(nd, 6 if quick else 10)):
        shards.append({'name': f'direct{p}', 'mode': 'nrt', 'kind': 'direct',
                       'first_case': f, 'n': n, 'secs': secs,
                       'hard_timeout': secs + 120})
    no = 6000 if quick else 300_000
    for p, (f, n) in enumerate(split(no, 4)):
        shards.append({'name': f'objects{p}', 'mode': 'nrt', 'kind': 'objects',
                       'first_case': f, 'n': n, 'secs': secs,
                       'hard_timeout': secs + 120})
    nn = 3000 if quick else 150_000
    for p, (f, n) in enumerate(split(nn, 2)):
        shards.append({'name': f'nodeid{p}', 'mode': 'nrt', 'kind': 'nodeid',
                       'first_case': f, 'n': n, 'secs': secs,
                       'hard_timeout': secs + 120})
    # round 7b: entry points of _engine.py no other workload enters
    for kind, total, parts in (('reserve', 30_000 if quick else 1_200_000, 2),
                               ('perm', 20_000 if quick else 800_000, 1),
                               ('numalloc', 40_000 if quick else 1_500_000, 1)):
        if not quick:
            parts *= 2
        for p, (f, n) in enumerate(split(total, parts)):
            shards.append({'name': f'{kind}{p}', 'mode': 'nrt', 'kind': kind,
                           'first_case': f, 'n': n, 'secs': secs if quick else 130,
                           'hard_timeout': secs + 120})
    return shards


# ---------------------------------------------------------------------------
# history generation (pure; no sc3)

PROFILES = [
    # alloc, free, double free, unknown free, free None
    dict(alloc=6, free=3, dfree=0.4, ufree=0.3, nfree=0.05),    # fills up
    dict(alloc=4, free=4, dfree=0.5, ufree=0.5, nfree=0.05),    # churn
    dict(alloc=3, free=5, dfree=1.0, ufree=1.0, nfree=0.1),     # mostly empty
]


def gen_requests(rng, size):
    """Returns a function producing request lengths for this history."""
    style = rng.choice(['ones', 'small', 'mixed', 'large'])

    def req():
        if style == 'ones':
            return 1 if rng.random() < 0.8 else rng.randint(1, max(1, size // 4))
        if style == 'small':
            return rng.randint(1, max(1, min(4, size)))
        if style == 'large':
            return rng.randint(max(1, size // 4), max(1, size))
        r = rng.random()
        if r < 0.6:
            return rng.randint(1, max(1, size // 6))
        if r < 0.95:
            return rng.randint(1, max(1, size // 2))
        return rng.randint(1, size + 2)          # may exceed the partition
    return req


def gen_config(rng):
    size = rng.choice([rng.randint(1, 8), rng.randint(4, 32),
                       rng.randint(16, 96), rng.randint(64, 256)])
    reserved = rng.choice([0, 0, 0, rng.randint(0, min(size - 1, 8))])
    cid = rng.choice([0, 0, 0, 1, 1, 2, 3, rng.randint(0, 31), 31])
    io = rng.choice([0, 0, 0, 0, 2, 4, 8, 16])   # audio-bus style extra offset
    return size, reserved, cid, size * cid + io


def history_length(rng):
    return rng.choice([rng.randint(1, 12), rng.randint(8, 60),
                       rng.randint(40, 200), rng.randint(150, 500)])


class Stats:
    """Per-history facts computed on the model (non-triviality, counters)."""

    def __init__(self):
        self.allocs = self.nones = self.frees = self.coalescing = 0
        self.dfrees = self.ufrees = self.blocks = 0
        self.ofrees = self.ofree_index_errors = 0
        self.failed_send_frees = 0
        self.alloc_after_coalescing = False
        self._pending = False

    def note_free(self, model, addr):
        n = model.live.get(addr)
        if n is None:
            return
        lo = addr - model.lo
        left = lo > 0 and not model.used[lo - 1]
        right = lo + n < len(model.used) and not model.used[lo + n]
        if left or right:
            self.coalescing += 1
            self._pending = True

    def note_alloc_ok(self):
        if self._pending:
            self.alloc_after_coalescing = True


def _site_key(e):
    sites = tb_sites(e)
    fn = sites[-1][1] if sites else 'outside-sc3'
    return f'{type(e).__name__}@{fn}'


def _offset_class(offset):
    return 'offset-zero' if offset == 0 else 'offset-nonzero'


# ---------------------------------------------------------------------------
# direct workload

def run_direct(spec, acc):
    from sc3.synth import _engine as eng
    from sc3.base.main import main
    from vf.model_alloc import BitmapModel
    for i in iter_cases(spec):
        rng = case_rng(spec['seed'], 'C16', 'direct', i)
        size, reserved, cid, offset = gen_config(rng)
        main._m_rgen.seed(rng.getrandbits(48))
        prof = rng.choice(PROFILES)
        names, weights = zip(*prof.items())
        req = gen_requests(rng, size)
        length = history_length(rng)
        try:
            real = eng.ContiguousBlockAllocator(size, reserved, offset)
        except Exception as e:
            acc.violation(f'C16/alloc/constructor-raises/{_site_key(e)}',
                          {'case': i, 'config': [size, reserved, offset],
                           'tb': short_tb(e)})
            acc.case(h64((size, reserved, offset)), nontrivial=False)
            continue
        model = BitmapModel(size, reserved, offset)
        st = Stats()
        ops = []
        freed = []           # starts that were live once (double-free targets)
        bad = None
        for k in range(length):
            name = rng.choices(names, weights)[0]
            outside = False
            if name in ('free', 'dfree') and not (model.live if name == 'free'
                                                  else freed):
                name = 'alloc'
            try:
                if name == 'alloc':
                    n = req()
                    ops.append(('alloc', n))
                    ans = real.alloc(n)
                    v = model.judge_alloc(n, ans)
                    st.allocs += 1
                    if ans is None:
                        st.nones += 1
                    elif v:
                        st.note_alloc_ok()
                    ops[-1] = ('alloc', n, ans)
                    if not v:
                        bad = (k, f'alloc/{v.mech}', v.detail)
                        break
                else:
                    if name == 'free':
                        addr = rng.choice(sorted(model.live))
                        st.note_free(model, addr)
                        st.frees += 1
                        freed.append(addr)
                    elif name == 'dfree':
                        # possibly re-allocated meanwhile: then it is a
                        # legitimate free of the new owner, the model agrees
                        addr = rng.choice(freed)
                        if addr in model.live:
                            st.note_free(model, addr)
                            st.frees += 1
                        else:
                            st.dfrees += 1
                    elif name == 'ufree':
                        addr = rng.randint(offset, offset + size - 1)
                        if addr in model.live:
                            st.note_free(model, addr)
                            st.frees += 1
                            freed.append(addr)
                        else:
                            st.ufrees += 1
                        if rng.random() < 0.3:
                            # an address that belongs to no one in this
                            # partition (hardware bus, another client's
                            # number): must leave the live set unchanged
                            lo = max(0, offset - size - 3)
                            cands = list(range(lo, offset)) + \
                                list(range(offset + size, offset + size + 3))
                            addr = rng.choice(cands)
                            outside = True
                            st.ofrees += 1
                    else:
                        addr = None
                    ops.append(('free', addr))
                    try:
                        real.free(addr)
                    except IndexError:
                        if not outside:
                            raise
                        st.ofree_index_errors += 1   # refused loudly: state intact
                    model.free(addr)
                v = model.judge_blocks((b.start, b.size) for b in real.blocks())
                st.blocks += 1
                if not v:
                    bad = (k, f'{ops[-1][0]}/{v.mech}', v.detail)
                    if outside:
                        bad = bad + ('address-outside-partition',)
                    break
            except Exception as e:
                bad = (k, f'{ops[-1][0]}/raises/{_site_key(e)}', short_tb(e))
                break
        acc.case(h64((size, reserved, offset, ops)),
                 nontrivial=st.coalescing > 0 and st.alloc_after_coalescing)
        _count(acc, st, offset, prefix='')
        if acc.want_sample() and 6 <= len(ops) <= 14 and st.coalescing:
            acc.sample({'case': i, 'size': size, 'reserved': reserved,
                        'client': cid, 'offset': offset, 'ops': ops})
        if bad:
            k, mech, detail = bad[:3]
            cls = bad[3] if len(bad) > 3 else _offset_class(offset)
            acc.violation(f'C16/{mech}/{cls}',
                          {'case': i, 'surface': 'ContiguousBlockAllocator',
                           'size': size, 'reserved': reserved, 'client': cid,
                           'offset': offset, 'op_index': k, 'why': detail,
                           'ops': ops[-40:]})


def _count(acc, st, offset, prefix):
    acc.count(prefix + 'allocs_judged', st.allocs)
    acc.count(prefix + 'none_answers_judged', st.nones)
    acc.count(prefix + 'frees_judged', st.frees)
    acc.count(prefix + 'double_frees', st.dfrees)
    acc.count(prefix + 'unknown_frees', st.ufrees)
    acc.count(prefix + 'outside_partition_frees', st.ofrees)
    acc.count(prefix + 'frees_whose_send_fails', st.failed_send_frees)
    acc.count(prefix + 'outside_partition_frees_refused_with_IndexError',
              st.ofree_index_errors)
    acc.count(prefix + 'coalescing_frees', st.coalescing)
    acc.count(prefix + 'blocks_compared', st.blocks)
    if offset:
        acc.count(prefix + 'histories_offset_nonzero')
        acc.count(prefix + 'none_answers_offset_nonzero', st.nones)
    else:
        acc.count(prefix + 'histories_offset_zero')
        acc.count(prefix + 'none_answers_offset_zero', st.nones)


# ---------------------------------------------------------------------------
# through the client objects

def _layout(opts, max_logins, cid):
    """Per-client partitions (SuperCollider convention), computed here from
    the option values, independently of sc3."""
    io = opts['output_channels'] + opts['input_channels']
    nctl = opts['control_buses'] // max_logins
    naud = (opts['audio_buses'] - io) // max_logins
    nbuf = opts['buffers'] // max_logins
    return {
        'control': (nctl, opts['reserved_control_buses'], nctl * cid),
        'audio': (naud, opts['reserved_audio_buses'], naud * cid + io),
        'buffer': (nbuf, opts['reserved_buffers'], nbuf * cid),
    }


def gen_server_config(rng):
    ml = rng.choice([1, 1, 2, 2, 3, 4, 8])
    per = rng.choice([rng.randint(2, 8), rng.randint(4, 24), rng.randint(8, 64)])
    inch, outch = rng.choice([(2, 2), (0, 2), (2, 2), (8, 8), (1, 1)])
    opts = {
        'control_buses': per * ml + rng.randint(0, ml - 1),
        'audio_buses': inch + outch + per * ml + rng.randint(0, ml - 1),
        'buffers': per * ml + rng.randint(0, ml - 1),
        'input_channels': inch, 'output_channels': outch,
        'reserved_control_buses': rng.choice([0, 0, 0, 1, 2]),
        'reserved_audio_buses': rng.choice([0, 0, 0, 1, 2]),
        'reserved_buffers': rng.choice([0, 0, 0, 1, 2]),
    }
    for k in ('control', 'audio', 'buffer'):
        key = 'reserved_' + ('buffers' if k == 'buffer' else k + '_buses')
        opts[key] = min(opts[key], per - 1)
    # the login reply of the server (/done /notify clientID maxLogins) may
    # report another max_logins than the local option (remote server, server
    # booted elsewhere with another -l): every partition follows the REPORTED
    # value; the local option only has to admit the assigned client id
    reported = ml
    if rng.random() < 0.5:
        reported = rng.choice([r for r in (1, 2, 3, 4, 6, 8, 16)
                               if r != ml and r <= per * ml // 2] or [ml])
    per_r = min(opts['control_buses'], opts['buffers'],
                opts['audio_buses'] - inch - outch) // reported
    for key in ('reserved_control_buses', 'reserved_audio_buses', 'reserved_buffers'):
        opts[key] = max(0, min(opts[key], per_r - 1))
    cid = rng.randrange(min(ml, reported))
    if reported != ml and rng.random() < 0.6:
        cid = min(ml, reported) - 1          # the last admissible client
    return ml, opts, cid, reported


class _Ctx:
    def __init__(self, **kw):
        self.__dict__.update(kw)


def _blocks(ctx, kd):
    return {(b.start, b.size) for b in ctx.allocators[kd].blocks()}


def _no_space(e):
    s = str(e)
    return (type(e) is Exception and (s.startswith('No more buffer numbers')
                                      or s.startswith('No block of'))) or \
        (type(e).__name__ == 'BusException' and 'failed to get' in s)


def _judge_after(ctx, k, kd, opname, cls, auto_n=None, explicit=None):
    """After an operation that handed nothing to the caller: numbers the
    operation kept for itself are adopted, everything else must be unchanged.
    Returns a `bad` tuple (k, mech, detail, kind, class) or None."""
    got = _blocks(ctx, kd)
    kept = adopt_kept(ctx.models[kd], got, auto_n, explicit)
    if kept:
        ctx.acc.count(f'object_{opname.replace("-", "_")}_numbers_kept_by_allocator', kept)
    ctx.stats[kd].blocks += 1
    v = ctx.models[kd].judge_blocks(got)
    if not v:
        return (k, f'{opname}/{v.mech}', f'{kd}: {v.detail}', kd, cls)
    for other in ctx.lay:
        if other != kd:
            ctx.stats[other].blocks += 1
            v = ctx.models[other].judge_blocks(_blocks(ctx, other))
            if not v:
                return (k, f'{opname}/{v.mech}', f'{other}: {v.detail}', other, cls)
    return None


def _op_failed_ctor(ctx, k):
    """A Buffer constructor (every spelling) whose completion function /
    message / argument fails after the number is known, with an automatic
    number or a number named by the caller (live, interior, free, foreign)."""
    rng, srv, Buffer = ctx.rng, ctx.srv, ctx.Buffer
    m, st = ctx.models['buffer'], ctx.stats['buffer']
    group = rng.random() < 0.25
    n = rng.randint(2, 4) if group else 1
    picked = pick_number(rng, m, n) if rng.random() < 0.75 else None
    cls, num = ('explicit-number-' + picked[0], picked[1]) if picked else \
        ('automatic-number', None)
    at = rng.randrange(n)
    fkind, comp, at = gen_fault(rng, at)
    if group:
        ctor = 'new_consecutive'
        call = lambda: Buffer.new_consecutive(n, 8, 1, srv, num, comp)
    else:
        ctor = rng.choice(SINGLE_CTORS)
        if ctor == 'init':
            call = lambda: Buffer(8, 1, srv, num, comp)
        elif ctor == 'init-frames-none':
            call = lambda: Buffer(None, 1, srv, num, comp if rng.random() < 0.5 else None)
        elif ctor == 'new_cue':
            call = lambda: Buffer.new_cue('vf16.wav', 0, 64, 1, srv, num, comp)
        elif ctor == 'new_read':
            call = lambda: Buffer.new_read(object(), 0, -1, srv, num)
        else:
            chans = rng.choice([None, [0, object()]])
            call = lambda: Buffer.new_read_channel('vf16.wav', 0, -1, chans, srv, num)
    ctx.ops.append(('buffer-ctor-fails', ctor, cls, num, n))
    res = None
    try:
        res = call()
    except Exception as e:
        if num is None and _no_space(e):
            # the number could not even be taken: an ordinary "no space"
            v = m.judge_alloc(n, None)
            st.allocs += 1
            st.nones += 1
            if not v:
                return (k, f'alloc/{v.mech}', v.detail, 'buffer',
                        _offset_class(ctx.lay['buffer'][2]))
            return _judge_after(ctx, k, 'buffer', 'failed-constructor', cls)
    if res is not None:
        # not refused (an implementation may swallow the fault): then it is
        # an ordinary construction
        ctx.acc.count('object_faulty_ctors_not_refused')
        objs = res if isinstance(res, list) else [res]
        if num is None:
            ans = objs[0].bufnum
            v = m.judge_alloc(n, ans)
            st.allocs += 1
            if not v:
                return (k, f'alloc/{v.mech}', v.detail, 'buffer',
                        _offset_class(ctx.lay['buffer'][2]))
            ctx.live.append(('buffer', ans, n, objs))
            return _judge_after(ctx, k, 'buffer', 'constructor', cls)
        return _judge_after(ctx, k, 'buffer', 'constructor', cls, explicit=(num, n))
    ctx.acc.count('object_failed_ctors')
    ctx.acc.count('object_failed_ctors_' + cls.replace('-', '_'))
    ctx.acc.count('object_failed_ctors_via_' + ctor.replace('-', '_'))
    ctx.acc.count('object_failed_ctors_fault_' + fkind.replace('-', '_'))
    ctx.faulted = True
    if num is None:
        return _judge_after(ctx, k, 'buffer', 'failed-constructor', cls, auto_n=n)
    return _judge_after(ctx, k, 'buffer', 'failed-constructor', cls, explicit=(num, n))


def _op_failed_deferred_alloc(ctx, k):
    """Buffer(alloc=False) takes its number, the later alloc() / alloc_read()
    / alloc_read_channel() fails: the caller still holds the object, which
    must be intact or fully freed; it is used (alloc again, free) later."""
    rng, srv, Buffer = ctx.rng, ctx.srv, ctx.Buffer
    m, st = ctx.models['buffer'], ctx.stats['buffer']
    how = rng.choice(DEFERRED_ALLOCS)
    ctx.ops.append(('buffer-deferred-' + how + '-fails',))
    try:
        o = Buffer(8, 1, srv, alloc=False)
        ans = o.bufnum
    except Exception as e:
        if not _no_space(e):
            raise
        o = ans = None
    v = m.judge_alloc(1, ans)
    st.allocs += 1
    ctx.ops[-1] = ctx.ops[-1] + (ans,)
    if not v:
        return (k, f'alloc/{v.mech}', v.detail, 'buffer',
                _offset_class(ctx.lay['buffer'][2]))
    if o is None:
        st.nones += 1
        return None
    st.note_alloc_ok()
    comp = gen_fault(rng)[1]
    raised = None
    try:
        if how == 'alloc':
            o.alloc(comp)
        elif how == 'alloc_read':
            o.alloc_read(object(), 0, -1, comp if rng.random() < 0.5 else None)
        else:
            o.alloc_read_channel('vf16.wav', 0, -1,
                                 rng.choice([None, [0, object()]]))
    except Exception as e:       # noqa: any refusal
        raised = e
    if raised is None:
        ctx.acc.count('object_faulty_ctors_not_refused')
    else:
        ctx.acc.count('object_failed_deferred_allocs')
        ctx.faulted = True
    released = ans not in {a for a, _ in _blocks(ctx, 'buffer')}
    cleared = o.bufnum is None
    if released != cleared:
        return (k, 'failed-alloc/leaves-buffer-half-freed',
                f'after {type(raised).__name__} in {how}(): number {ans} '
                f'{"returned to" if released else "still in"} the allocator, '
                f'object.bufnum = {o.bufnum}', 'buffer', 'automatic-number')
    if released:
        m.free(ans)
        ctx.dead.append(('buffer', o))
    else:
        if o.bufnum != ans:
            return (k, 'failed-alloc/object-changes-number',
                    f'{ans} -> {o.bufnum}', 'buffer', 'automatic-number')
        if rng.random() < 0.5:
            o.alloc()                        # the retry, without the fault
        ctx.live.append(('buffer', ans, 1, [o]))
    return _judge_after(ctx, k, 'buffer', 'failed-alloc', 'automatic-number')


def _op_alias(ctx, k):
    """An object made for a number the caller names (Bus index=, Buffer
    bufnum=, Bus.new_from / sub_bus of a live bus): nothing is allocated and
    nothing may be released - also not when the alias of a number that is not
    the start of a live range is freed again."""
    rng, srv = ctx.rng, ctx.srv
    kd = rng.choice(['audio', 'control', 'buffer'])
    m = ctx.models[kd]
    owners = [e for e in ctx.live if e[0] == kd and e[2] > 1]
    obj = None
    if kd != 'buffer' and owners and rng.random() < 0.4:
        _, start, n0, objs = rng.choice(owners)
        off = rng.randrange(n0)
        n = rng.randint(1, n0 - off)
        num = start + off
        cls = 'explicit-number-' + ('live' if off == 0 else 'live-interior')
        ctx.ops.append((kd + '-sub-bus', num, n))
        make = (lambda: objs[0].sub_bus(off, n)) if rng.random() < 0.5 else \
            (lambda: type(objs[0]).new_from(objs[0], off, n))
    else:
        n = rng.choice([1, 1, 2, 3, rng.randint(1, max(1, m.size))])
        picked = pick_number(rng, m, n)
        if picked is None:
            return None
        cls, num = 'explicit-number-' + picked[0], picked[1]
        ctx.ops.append((kd + '-explicit-number', cls, num, n))
        if kd == 'audio':
            make = lambda: ctx.AudioBus(n, srv, num)
        elif kd == 'control':
            make = lambda: ctx.ControlBus(n, srv, num)
        elif rng.random() < 0.5:
            n = 1
            al = rng.random() < 0.5
            make = lambda: ctx.Buffer(8, 1, srv, num, alloc=al)
        else:
            n = rng.randint(1, 3)
            make = lambda: ctx.Buffer.new_consecutive(n, 8, 1, srv, num)[0]
    try:
        obj = make()
    except Exception:       # noqa: refusing a caller's number is allowed ...
        # ... but it is a constructor that failed for a number that is not
        # its own: nothing may have been released
        ctx.acc.count('object_explicit_number_ctors_refused')
        return _judge_after(ctx, k, kd, 'failed-constructor', cls)
    got = obj.bufnum if kd == 'buffer' else obj.index
    if got != num:
        return (k, 'explicit-number/object-has-another-number',
                f'{kd}: asked {num}, object has {got}', kd, cls)
    ctx.acc.count('object_explicit_number_ctors')
    ctx.acc.count('object_explicit_number_ctors_' + cls[16:].replace('-', '_'))
    res = _judge_after(ctx, k, kd, 'explicit-number', cls, explicit=(num, n))
    if res or num in m.live or rng.random() < 0.5:
        return res
    # the alias of a number that is not the start of a live range is freed:
    # an interior / free / foreign address, the live set stays as it is
    ctx.ops.append((kd + '-explicit-number-free', num))
    ctx.stats[kd].ufrees += 1
    try:
        obj.free()
    except IndexError:
        if cls != 'explicit-number-foreign':
            raise
        ctx.stats[kd].ofree_index_errors += 1
    ctx.acc.count('object_explicit_number_frees')
    return _judge_after(ctx, k, kd, 'explicit-number-free', cls)


def _op_free_all(ctx, k):
    """Buffer.free_all(server): every buffer number of this client is free
    again (also numbers a failed constructor kept)."""
    m = ctx.models['buffer']
    ctx.ops.append(('buffer-free-all', len(m.live)))
    ctx.Buffer.free_all(ctx.srv)
    for a in sorted(m.live):
        ctx.stats['buffer'].note_free(m, a)
        ctx.stats['buffer'].frees += 1
        m.free(a)
    # the objects are stale now (their numbers may get new owners): dropped
    ctx.live[:] = [e for e in ctx.live if e[0] != 'buffer']
    ctx.acc.count('object_free_all_calls')
    return _judge_after(ctx, k, 'buffer', 'free-all', 'all-buffers')


def run_objects(spec, acc):
    from sc3.base.main import main
    from sc3.base.netaddr import NetAddr
    from sc3.synth.server import Server, ServerOptions
    from sc3.synth.bus import AudioBus, ControlBus, BusException
    from sc3.synth.buffer import Buffer
    from vf.model_alloc import BitmapModel

    srv = Server('vf16', NetAddr('127.0.0.1', 57916), ServerOptions())

    for i in iter_cases(spec):
        rng = case_rng(spec['seed'], 'C16', 'objects', i)
        ml, opts, cid, reported = gen_server_config(rng)
        main.reset()
        main._m_rgen.seed(rng.getrandbits(48))
        for k, v in opts.items():
            setattr(srv.options, k, v)
        srv.options.max_logins = ml
        try:
            # the way the library receives a login: the status watcher's
            # handler of the /done /notify reply (stores the reported
            # max_logins, then sets the client id and rebuilds the allocators)
            srv._status_watcher._handle_login_done(cid, reported)
        except Exception as e:
            acc.violation(f'C16/objects/new-allocators-raise/{_site_key(e)}',
                          {'case': i, 'max_logins': ml, 'reported': reported,
                           'options': opts, 'client': cid, 'tb': short_tb(e)})
            acc.case(h64((ml, opts, cid)), nontrivial=False)
            continue
        if srv.client_id != cid or srv._status_watcher.max_logins != reported:
            acc.mark_inconclusive('could not configure client id / max_logins')
            return
        if reported != ml:
            acc.count('object_histories_reported_max_logins_differs')
        lay = _layout(opts, reported, cid)
        models = {k: BitmapModel(*v) for k, v in lay.items()}
        stats = {k: Stats() for k in lay}
        allocators = {'control': srv._control_bus_allocator,
                      'audio': srv._audio_bus_allocator,
                      'buffer': srv._buffer_allocator}
        live = []        # (kind, start, n, [objects])
        dead = []        # freed objects (double free)
        ops = []
        bad = None
        prof = rng.choice(PROFILES)
        reqs = {k: gen_requests(rng, lay[k][0]) for k in lay}
        length = rng.choice([rng.randint(1, 12), rng.randint(8, 60),
                             rng.randint(40, 160)])
        ctx = _Ctx(rng=rng, srv=srv, lay=lay, models=models, stats=stats,
                   allocators=allocators, live=live, dead=dead, ops=ops,
                   acc=acc, Buffer=Buffer, AudioBus=AudioBus,
                   ControlBus=ControlBus, faulted=False)
        for k in range(length):
            r = rng.random() * (prof['alloc'] + prof['free'] + prof['dfree'])
            kind = None
            if rng.random() < 0.05:
                # a bus object made for a number outside this client's
                # partition (hardware channel, another client's bus) and then
                # freed: nothing of this client's may be released by that
                kd = rng.choice(['audio', 'control'])
                below = lay[kd][2]
                if below > 0:
                    idx = rng.randrange(max(0, below - lay[kd][0] - 2), below)
                    cls_ = AudioBus if kd == 'audio' else ControlBus
                    ops.append((kd + '-foreign-free', idx))
                    stats[kd].ofrees += 1
                    try:
                        cls_(1, srv, idx).free()
                    except IndexError:
                        stats[kd].ofree_index_errors += 1
                    v = models[kd].judge_blocks(
                        (b.start, b.size) for b in allocators[kd].blocks())
                    if not v:
                        bad = (k, f'free/{v.mech}', f'{kd}: {v.detail}',
                               'address-outside-partition')
                        kind = kd
                        break
                    continue
            fr = rng.random()
            if fr < 0.158:
                # operations that fail half way / name their number
                # themselves, then the history goes on (vf/c16_faults.py)
                fop = (_op_failed_ctor if fr < 0.09 else
                       _op_failed_deferred_alloc if fr < 0.115 else
                       _op_alias if fr < 0.155 else _op_free_all)
                try:
                    res = fop(ctx, k)
                except Exception as e:       # noqa: the harness' own check failed
                    res = (k, f'{fop.__name__[4:].replace("_", "-")}/raises/'
                           f'{_site_key(e)}', short_tb(e), 'buffer', 'unexpected')
                if res:
                    bad = res[:3] + (res[4],)
                    kind = res[3]
                    break
                continue
            try:
                if r < prof['alloc'] or not live:
                    kind = rng.choice(['control', 'audio', 'buffer', 'buffer'])
                    n = reqs[kind]()
                    m, st = models[kind], stats[kind]
                    objs = None
                    consecutive = kind == 'buffer' and (n > 1 or rng.random() < 0.2)
                    ops.append((kind + ('-consecutive' if consecutive else ''), n))
                    try:
                        if kind == 'control':
                            objs = [ControlBus(n, srv)]
                            ans = objs[0].index
                        elif kind == 'audio':
                            objs = [AudioBus(n, srv)]
                            ans = objs[0].index
                        elif consecutive:
                            objs = Buffer.new_consecutive(n, 8, 1, srv)
                            ans = objs[0].bufnum
                            got = [b.bufnum for b in objs]
                            if got != list(range(ans, ans + n)):
                                bad = (k, 'buffer/consecutive-numbers-not-consecutive',
                                       f'{got}')
                                break
                        else:
                            objs = [Buffer(8, 1, srv)]
                            ans = objs[0].bufnum
                    except BusException as e:
                        if 'failed to get' not in str(e):
                            raise
                        ans = None
                    except Exception as e:
                        if type(e) is Exception and (
                                str(e).startswith('No more buffer numbers')
                                or str(e).startswith('No block of')):
                            ans = None
                        else:
                            raise
                    v = m.judge_alloc(n, ans)
                    st.allocs += 1
                    ops[-1] = ops[-1] + (ans,)
                    if ans is None:
                        st.nones += 1
                    elif v:
                        st.note_alloc_ok()
                        live.append((kind, ans, n, objs))
                        if ctx.faulted:
                            acc.count('object_allocs_after_failed_operation')
                    if not v:
                        bad = (k, f'alloc/{v.mech}', v.detail)
                        break
                elif r < prof['alloc'] + prof['free']:
                    kind, start, n, objs = live.pop(rng.randrange(len(live)))
                    m, st = models[kind], stats[kind]
                    if kind == 'buffer' and len(objs) == 1 and rng.random() < 0.2:
                        # the SEND of the free command fails (a completion
                        # message the OSC encoder refuses): the free must not happen by halves -
                        # afterwards the object is either fully freed (number
                        # back in the allocator, object without number) or
                        # fully intact; a half-freed object would release a
                        # number a second time on a retry
                        o = objs[0]
                        comp = rng.choice([['/b_query', 2 ** 70],
                                           ['/b_query', object()],
                                           ['/b_set', start, 0, 1e400, {}],
                                           gen_fault(rng)[1], gen_fault(rng)[1]])
                        if callable(comp):
                            acc.count('object_frees_whose_completion_function_fails')
                        ops.append(('buffer-free-send-fails', start))
                        st.failed_send_frees += 1
                        raised = None
                        try:
                            o.free(comp)
                        except Exception as e:       # noqa: any refusal
                            raised = e
                        released = start not in {b.start for b in
                                                 allocators['buffer'].blocks()}
                        cleared = o.bufnum is None
                        if raised is None:
                            acc.count('object_failing_sends_not_refused')
                        if released != cleared:
                            bad = (k, 'free/failed-send-leaves-buffer-half-freed',
                                   f'after {type(raised).__name__}: number {start} '
                                   f'{"returned to" if released else "still in"} the '
                                   f'allocator, object.bufnum = {o.bufnum}',
                                   'send-raises')
                            break
                        if released:
                            m.free(start)
                            dead.append((kind, o))
                        else:
                            live.append((kind, start, n, objs))
                        continue_to_judge = True
                    else:
                        continue_to_judge = False
                    if continue_to_judge:
                        pass
                    else:
                        st.note_free(m, start)
                        st.frees += 1
                        ops.append((kind + '-free', start))
                        fj = None
                        if kind == 'buffer' and len(objs) > 1 and rng.random() < 0.3:
                            # the free of ONE member of a consecutive group
                            # fails; the caller retries it at once (the group
                            # is still freed as a group)
                            fj = rng.randrange(len(objs))
                            comp = gen_fault(rng)[1]
                            ops[-1] = ('buffer-group-free-member-fails', start, fj)
                            acc.count('object_group_frees_whose_send_fails')
                        for j, o in enumerate(objs):    # a consecutive group is freed as a group
                            if j != fj:
                                o.free()
                                continue
                            try:
                                o.free(comp)
                            except Exception:       # noqa: any refusal
                                pass
                            else:
                                acc.count('object_failing_sends_not_refused')
                            if j == 0:
                                released = start not in {
                                    b.start for b in allocators['buffer'].blocks()}
                                if released != (o.bufnum is None):
                                    bad = (k, 'free/failed-send-leaves-buffer-half-freed',
                                           f'group member 0: number {start} '
                                           f'{"returned to" if released else "still in"} '
                                           f'the allocator, object.bufnum = {o.bufnum}',
                                           'send-raises')
                                    break
                            if o.bufnum is not None:
                                o.free()
                        if bad:
                            break
                        m.free(start)
                        dead.append((kind, objs[0]))
                else:
                    if not dead:
                        continue
                    kind, o = rng.choice(dead)
                    m, st = models[kind], stats[kind]
                    st.dfrees += 1
                    ops.append((kind + '-double-free',))
                    o.free()
                for kd in lay:
                    v = models[kd].judge_blocks(
                        (b.start, b.size) for b in allocators[kd].blocks())
                    stats[kd].blocks += 1
                    if not v:
                        opn = 'free' if 'free' in ops[-1][0] else 'alloc'
                        bad = (k, f'{opn}/{v.mech}', f'{kd}: {v.detail}')
                        kind = kd
                        break
                if bad:
                    break
            except Exception as e:
                bad = (k, f'{"free" if "free" in ops[-1][0] else "alloc"}/raises/{_site_key(e)}',
                       short_tb(e))
                break
        nontriv = any(s.coalescing > 0 and s.alloc_after_coalescing
                      for s in stats.values())
        acc.case(h64((ml, reported, sorted(opts.items()), cid, ops)), nontrivial=nontriv)
        for kd, s in stats.items():
            _count(acc, s, lay[kd][2], prefix='object_')
            acc.count(f'object_allocs_{kd}', s.allocs)
        acc.count(f'object_histories_max_logins_{ml}')
        if cid:
            acc.count('object_histories_client_nonzero')
        if acc.want_sample() and 5 <= len(ops) <= 12 and nontriv:
            acc.sample({'case': i, 'max_logins': ml, 'reported_max_logins': reported,
                        'client': cid,
                        'options': opts, 'ops': ops})
        if bad:
            k, mech, detail = bad[:3]
            off = lay[kind][2] if kind in lay else 0
            cls = bad[3] if len(bad) > 3 else _offset_class(off)
            if reported != ml and mech.startswith(('alloc/range-leaves-partition',
                                                   'alloc/no-space-but')):
                # class of input: the server reported another max_logins than
                # the local option; partitions must follow the reported one
                mech = '/'.join(mech.split('/')[:2])
                cls = 'reported-max-logins-differs'
            acc.violation(f'C16/{mech}/{cls}',
                          {'case': i, 'surface': f'{kind} constructor',
                           'max_logins': ml, 'reported_max_logins': reported,
                           'client': cid, 'options': opts,
                           'partition(size,reserved,offset)': lay.get(kind),
                           'op_index': k, 'why': detail, 'ops': ops[-40:]})


# ---------------------------------------------------------------------------
# node ids

def run_nodeid(spec, acc):
    from sc3.base.main import main
    from sc3.base.netaddr import NetAddr
    from sc3.synth import _engine as eng
    from sc3.synth.server import Server, ServerOptions
    from sc3.synth.node import Group, Synth, ParGroup
    from vf.model_alloc import NodeIdModel, ID_SPAN

    srv = Server('vf16n', NetAddr('127.0.0.1', 57917), ServerOptions())

    for i in iter_cases(spec):
        rng = case_rng(spec['seed'], 'C16', 'nodeid', i)
        user = rng.choice([0, 1, 2, rng.randint(0, 31), 31])
        near = rng.random() < 0.8
        if near:
            window = rng.choice([2, 3, rng.randint(2, 40), rng.randint(20, 400)])
            first = ID_SPAN - window
            count = rng.randint(window, 3 * window + 5)
        else:
            first = rng.choice([1000, 2, rng.randint(2, 5000)])
            window = ID_SPAN - first
            count = rng.randint(10, 1500)
        via = rng.choice(['allocator', 'allocator', 'server', 'nodes'])
        model = NodeIdModel(user, first)
        bad = None
        ids = []
        try:
            if via == 'allocator':
                real = eng.NodeIDAllocator(user, first)
                nxt = real.alloc
            else:
                main.reset()
                ml = rng.choice([user + 1, 32, max(user + 1, 8)])
                srv.options.max_logins = ml
                srv.options.initial_node_id = first
                srv._set_client_id(user)
                if srv.client_id != user:
                    acc.mark_inconclusive('could not configure client id')
                    return
                real = srv._node_allocator
                if via == 'server':
                    nxt = srv._next_node_id
                else:
                    count = min(count, 300)
                    makers = [lambda: Group(srv).node_id,
                              lambda: Synth('default', None, srv).node_id,
                              lambda: ParGroup(srv, 'addToTail').node_id,
                              lambda: Group.basic_new(srv).node_id,
                              lambda: Synth.basic_new('default', srv).node_id]
                    nxt = lambda: rng.choice(makers)()
            for k in range(count):
                nid = nxt()
                if len(ids) < 6:
                    ids.append(nid)
                v = model.judge(nid)
                if not v:
                    bad = (k, v.mech, v.detail)
                    break
            # declared range vs the range ids really come from
            lo_decl = real.id_offset()
            hi_decl = lo_decl + real.num_ids
            acc.count('declared_range_checks')
            if not bad and model.count and not (
                    lo_decl <= model.min_id and model.max_id < hi_decl):
                bad = (count, 'declared-range-disagrees-with-id-mask',
                       f'user {user}: id_offset()={lo_decl} num_ids='
                       f'{real.num_ids} declare [{lo_decl}, {hi_decl}) but ids '
                       f'{model.min_id}..{model.max_id} were handed out')
            if not bad and via != 'allocator':
                groups = srv._default_groups
                acc.count('default_group_checks', len(groups))
                for c, g in enumerate(groups):
                    if not (c * ID_SPAN <= g.node_id < c * ID_SPAN + max(first, 2)):
                        bad = (count, 'declared-range-disagrees-with-id-mask',
                               f"default group of client {c} has id {g.node_id}, "
                               f"outside that client's permanent id zone "
                               f'[{c * ID_SPAN}, {c * ID_SPAN + first}) and '
                               f'inside the temporary id window of client '
                               f'{g.node_id // ID_SPAN}')
                        break
        except Exception as e:
            bad = (len(ids), f'raises/{_site_key(e)}', short_tb(e))
        acc.case(h64((user, first, count, via)), nontrivial=model.wraps > 0)
        acc.count('node_ids_judged', model.count)
        acc.count('node_id_wraps', model.wraps)
        acc.count(f'node_id_runs_via_{via}')
        if user:
            acc.count('node_id_runs_user_nonzero')
        if acc.want_sample() and model.wraps and via == 'nodes':
            acc.sample({'case': i, 'user': user, 'first': first, 'via': via,
                        'count': count, 'first_ids': ids})
        if bad:
            k, mech, detail = bad
            acc.violation(f'C16/nodeid/{mech}',
                          {'case': i, 'user': user, 'first_id': first,
                           'window': window, 'via': via, 'alloc_index': k,
                           'why': detail, 'first_ids': ids})


def run_shard(spec, acc):
    from vf import model_alloc, c16_faults
    if model_alloc.selftest() and c16_faults.selftest():
        acc.count('model_selftest')
    kind = spec['shard']['kind']
    if kind == 'direct':
        run_direct(spec, acc)
    elif kind == 'objects':
        run_objects(spec, acc)
    elif kind in ('reserve', 'perm', 'numalloc'):
        from vf import c16_extra
        getattr(c16_extra, 'run_' + kind)(spec, acc)
    else:
        run_nodeid(spec, acc)
