"""C06/C07 shared model: what an sc3 "OSC list" means on the wire.

Independent of sc3 (never imports it).  Written from the OSC 1.0 specification
and from the documented coercions of the sending API (docstring of
OscInterface.send_msg / NetAddr.send_bundle, documentation of sclang's
NetAddr.sendMsg which the library mirrors):

  * ['/addr', a1, a2 ...] is a message, [time, elem, elem ...] is a bundle,
  * None, False and [] are sent as int32 0, True as int32 1,
  * int -> 'i' (32 bit), float -> 'f' (32 bit IEEE), str -> 's' (UTF-8),
    bytes/bytearray/memoryview -> 'b', 4-tuple of bytes -> 'm',
  * a non-empty list starting with a str is a message sent as a blob, a list
    [time, [..], ...] is a bundle sent as a blob (completion messages),
  * the strings '[' and ']' open and close an OSC array,
  * a bundle time of None or < 0 means "immediately" (timetag 1), otherwise
    the timetag is that latency added to the send instant.

expect_msg / expect_bundle turn such a list into the *expected decoded tree*;
compare_* compare a tree decoded by vf.osc with it and return mechanism slugs.
"""

import struct

from . import osc

I32_MIN, I32_MAX = -2 ** 31, 2 ** 31 - 1
UDP_MAX = 65507          # largest UDP/IPv4 payload
IMMEDIATELY = 1


class MustRefuse(Exception):
    """The value has no OSC 1.0 representation under the documented
    coercions; the only correct behaviours are refusal (an exception)."""

    def __init__(self, reason):
        super().__init__(reason)
        self.reason = reason


class Undecided(Exception):
    """The model takes no position (input outside the documented domain)."""

    def __init__(self, reason):
        super().__init__(reason)
        self.reason = reason


# --------------------------------------------------------------------------
# expectation
# --------------------------------------------------------------------------

def _is_time(x):
    # bool is an int in Python (True == 1 s): nothing in the API says otherwise
    return x is None or isinstance(x, (int, float))


def expect_arg_seq(args, ttf, out_feats):
    """args (python values after the address) -> list of expected nodes,
    honouring '[' / ']' markers."""
    stack = [[]]
    for a in args:
        if isinstance(a, str) and a == '[':
            new = []
            stack[-1].append(('arr', new))
            stack.append(new)
            out_feats.add('array')
            continue
        if isinstance(a, str) and a == ']':
            if len(stack) < 2:
                raise MustRefuse('unbalanced-array-markers')
            stack.pop()
            continue
        stack[-1].append(expect_arg(a, ttf, out_feats))
    if len(stack) != 1:
        raise MustRefuse('unbalanced-array-markers')
    return stack[0]


def expect_arg(a, ttf, feats):
    if a is None:
        feats.add('coerced-none')
        return ('i', 0)
    if isinstance(a, bool):
        feats.add('coerced-bool')
        return ('i', int(a))
    if isinstance(a, int):
        if not I32_MIN <= a <= I32_MAX:
            raise MustRefuse('int-out-of-int32')
        return ('i', a)
    if isinstance(a, float):
        try:
            return ('f', struct.pack('>f', a))
        except OverflowError:
            raise MustRefuse('float-out-of-float32')
    if isinstance(a, str):
        if '\0' in a:
            raise MustRefuse('str-embedded-nul')
        try:
            raw = a.encode('utf-8')
        except UnicodeEncodeError:
            raise MustRefuse('str-not-utf8-encodable')
        if len(raw) != len(a):
            feats.add('str-non-ascii')
        return ('s', a)
    if isinstance(a, (bytes, bytearray, memoryview)):
        raw = bytes(a)          # every byte of the buffer, whatever its format
        if isinstance(a, memoryview) and (a.itemsize != 1 or a.ndim != 1):
            feats.add('blob-memoryview-of-multibyte-items')
        if len(raw) % 4:
            feats.add('blob-unaligned')
        if not raw:
            feats.add('blob-empty')
        return ('b', raw)
    if isinstance(a, list):
        if not a:
            feats.add('coerced-empty-list')
            return ('i', 0)
        if isinstance(a[0], str):
            feats.add('nested-msg')
            return ('blobmsg', expect_msg(a, ttf, feats))
        if _is_time(a[0]) and len(a) > 1 and isinstance(a[1], list):
            feats.add('nested-bundle')
            return ('blobbundle', expect_bundle(a, ttf, feats))
        raise Undecided('list-not-osc-shaped')
    if isinstance(a, tuple):
        # the builder documents 4-tuples as MIDI messages (port id, status,
        # data1, data2): four bytes
        if len(a) == 4 and all(isinstance(x, int) for x in a):
            if all(0 <= x <= 255 for x in a):
                feats.add('midi')
                return ('m', tuple(int(x) for x in a))
            # 4-tuples ('m', a MIDI extension) are not in the property's
            # argument domain: no verdict, the check only counts what it sees
            raise Undecided('midi-byte-out-of-range')
        raise MustRefuse('unsupported-type')
    raise MustRefuse('unsupported-type')


def expect_msg(lst, ttf, feats=None):
    """['/addr', args...] -> ('msg', addr, [nodes])."""
    feats = set() if feats is None else feats
    if not lst or not isinstance(lst[0], str):
        raise MustRefuse('address-not-str')
    addr = lst[0]
    if addr == '':
        raise MustRefuse('address-empty')
    if '\0' in addr:
        raise MustRefuse('str-embedded-nul')
    if not addr.startswith('/'):
        # OSC 1.0: "An OSC Address Pattern is an OSC-string beginning with
        # the character '/'"
        raise MustRefuse('address-without-slash')
    try:
        addr.encode('utf-8')
    except UnicodeEncodeError:
        raise MustRefuse('str-not-utf8-encodable')
    return ('msg', addr, expect_arg_seq(lst[1:], ttf, feats))


def expect_bundle(lst, ttf, feats=None, parent_time='top'):
    """[time, elem, ...] -> ('bundle', timetag, [trees]).
    ttf(time) gives the expected integer timetag (or None: not decided)."""
    feats = set() if feats is None else feats
    if not lst or not _is_time(lst[0]):
        raise MustRefuse('bundle-time-not-number')
    t = lst[0]
    # (-inf is below zero: 'immediately', like every negative latency)
    if t is not None and (t != t or t == float('inf')):
        raise MustRefuse('bundle-time-not-finite')
    if parent_time != 'top':
        # OSC 1.0: the timetag of an enclosed bundle must be >= the timetag
        # of the enclosing bundle.  'immediately' inside a timed bundle
        # precedes it.
        pimm = parent_time is None or parent_time < 0
        cimm = t is None or t < 0
        if not pimm and (cimm or t < parent_time):
            raise MustRefuse('nested-bundle-precedes-parent')
    if t is None or t < 0:
        feats.add('immediately')
    elems = []
    for e in lst[1:]:
        if not isinstance(e, list) or not e:
            raise MustRefuse('bundle-element-not-list')
        if isinstance(e[0], str):
            elems.append(expect_msg(e, ttf, feats))
        elif _is_time(e[0]):
            feats.add('nested-bundle-element')
            elems.append(expect_bundle(e, ttf, feats, parent_time=t))
        else:
            raise MustRefuse('bundle-element-not-osc-shaped')
    tt = ttf(t)
    if tt is not None and not 0 <= tt < 2 ** 64:
        raise MustRefuse('timetag-out-of-uint64')
    return ('bundle', tt, elems)


# --------------------------------------------------------------------------
# comparison with a tree decoded by vf.osc
# --------------------------------------------------------------------------

def compare(dec, exp, path=''):
    """-> list of mismatch slugs (empty: equal).  dec: osc.Msg | osc.Bundle."""
    if exp[0] == 'msg':
        if not isinstance(dec, osc.Msg):
            return [f'{path}message-decoded-as-bundle']
        out = []
        if dec.addr != exp[1]:
            out.append(f'{path}address')
        out += _cmp_args(dec.args, exp[2], path)
        return out
    if not isinstance(dec, osc.Bundle):
        return [f'{path}bundle-decoded-as-message']
    out = []
    if exp[1] is not None and dec.timetag != exp[1]:
        out.append(f'{path}timetag')
    if len(dec.elements) != len(exp[2]):
        out.append(f'{path}bundle-element-count')
        return out
    for d, e in zip(dec.elements, exp[2]):
        out += compare(d, e, path)
    return out


def _cmp_args(dargs, eargs, path):
    if len(dargs) != len(eargs):
        return [f'{path}arg-count']
    out = []
    for d, e in zip(dargs, eargs):
        k = e[0]
        if k == 'i':
            if not (isinstance(d, int) and not isinstance(d, bool)):
                out.append(f'{path}tag/int-sent-as-{_kind(d)}')
            elif d != e[1]:
                out.append(f'{path}value/int')
        elif k == 'f':
            if not isinstance(d, float):
                out.append(f'{path}tag/float-sent-as-{_kind(d)}')
            elif struct.pack('>f', d) != e[1]:
                out.append(f'{path}value/float')
        elif k == 's':
            if not isinstance(d, str):
                out.append(f'{path}tag/str-sent-as-{_kind(d)}')
            elif d != e[1]:
                out.append(f'{path}value/str')
        elif k == 'b':
            if not isinstance(d, bytes):
                out.append(f'{path}tag/blob-sent-as-{_kind(d)}')
            elif d != e[1]:
                out.append(f'{path}value/blob')
        elif k == 'm':
            if not (isinstance(d, tuple) and d[0] == 'm'):
                out.append(f'{path}tag/midi-sent-as-{_kind(d)}')
            elif d[1] != e[1]:
                out.append(f'{path}value/midi')
        elif k == 'arr':
            if not isinstance(d, list):
                out.append(f'{path}tag/array-sent-as-{_kind(d)}')
            else:
                out += _cmp_args(d, e[1], path + 'array/')
        elif k in ('blobmsg', 'blobbundle'):
            if not isinstance(d, bytes):
                out.append(f'{path}tag/nested-packet-sent-as-{_kind(d)}')
                continue
            try:
                sub = osc.decode(d)
            except osc.OscError as err:
                out.append(f'{path}nested-blob-nonconformant/'
                           + _slug(str(err)))
                continue
            out += compare(sub, e[1], path + 'nested/')
        else:
            raise AssertionError(k)
    return out


def _kind(d):
    if isinstance(d, bool) or d is None:
        return 'TFN'
    if isinstance(d, tuple):
        return str(d[0])
    return type(d).__name__


def _slug(s):
    s = ''.join(c if c.isalnum() else '-' for c in s.lower())
    while '--' in s:
        s = s.replace('--', '-')
    # numbers are values, not mechanisms
    return '-'.join(w for w in s.strip('-').split('-')
                    if not w.isdigit() and len(w) > 1)[:60]


def mechanism(slug):
    """Mismatch slug without its position: 'array/' and 'nested/' path
    components are dropped (where the value sat is witness data, not a
    mechanism), except that a timetag inside a blob is kept apart from a
    bundle's own timetag."""
    parts = slug.split('/')
    inblob = False
    while parts and parts[0] in ('array', 'nested'):
        inblob = inblob or parts[0] == 'nested'
        parts.pop(0)
    rest = '/'.join(parts)
    if rest == 'timetag' and inblob:
        return 'timetag-of-bundle-inside-blob'
    return rest


# --------------------------------------------------------------------------
# what the library's own reader has to return for the same tree
# --------------------------------------------------------------------------

def lib_params(nodes, blobs):
    """Expected OscMessage.params.  `blobs` is an iterator over the raw blob
    contents found by the independent decoder (nested packets are compared as
    bytes here; their content is checked by compare())."""
    out = []
    for e in nodes:
        k = e[0]
        if k == 'i':
            out.append(e[1])
        elif k == 'f':
            out.append(struct.unpack('>f', e[1])[0])
        elif k == 's':
            out.append(e[1])
        elif k == 'b':
            next(blobs)
            out.append(e[1])
        elif k == 'm':
            out.append(e[1])
        elif k == 'arr':
            out.append(lib_params(e[1], blobs))
        else:
            out.append(next(blobs))
    return out


def iter_blobs(dargs):
    for d in dargs:
        if isinstance(d, bytes):
            yield d
        elif isinstance(d, list):
            yield from iter_blobs(d)


def same_params(a, b):
    """Equality with NaN == NaN, -0.0 != 0.0 and exact types."""
    if type(a) is not type(b):
        return False
    if isinstance(a, (list, tuple)):
        return len(a) == len(b) and all(same_params(x, y) for x, y in zip(a, b))
    if isinstance(a, float):
        return struct.pack('>d', a) == struct.pack('>d', b)
    return a == b


def flatten(exp, out=None):
    """Expected tree -> [(timetag | None, addr, nodes)] depth first."""
    out = [] if out is None else out

    def rec(t, tt):
        if t[0] == 'msg':
            out.append((tt, t[1], t[2]))
        else:
            for e in t[2]:
                rec(e, t[1])
    rec(exp, None)
    return out


# --------------------------------------------------------------------------
# exact sizes (OSC 1.0 arithmetic)
# --------------------------------------------------------------------------

def _pad_s(n):
    return n + 4 - n % 4


def size_of(exp):
    if exp[0] == 'bundle':
        return 16 + sum(4 + size_of(e) for e in exp[2])
    tags, body = _size_args(exp[2])
    return _pad_s(len(exp[1].encode('utf-8'))) + _pad_s(1 + tags) + body


def _size_args(nodes):
    tags = body = 0
    for e in nodes:
        k = e[0]
        tags += 1
        if k in ('i', 'f', 'm'):
            body += 4
        elif k == 's':
            body += _pad_s(len(e[1].encode('utf-8')))
        elif k == 'b':
            body += 4 + (len(e[1]) + 3) // 4 * 4
        elif k == 'arr':
            t, b = _size_args(e[1])
            tags += t + 1
            body += b
        else:
            body += 4 + size_of(e[1])
    return tags, body


# --------------------------------------------------------------------------
# generators
# --------------------------------------------------------------------------

_ADDR_CHARS = ''.join(chr(c) for c in range(33, 127) if chr(c) not in '/')
_NONASCII = ['é', 'ñ', 'ü', 'ß', 'λ', '€', '日', '本', '𝄞', '😀', ' ', '￿']
_ASCII = ''.join(chr(c) for c in range(32, 127))


def gen_addr(rng, plain=False):
    if plain or rng.random() < 0.5:
        return '/' + ''.join(rng.choice('abcdefgh_') for _ in range(rng.randint(0, 9)))
    parts = []
    for _ in range(rng.randint(1, 4)):
        parts.append(''.join(rng.choice(_ADDR_CHARS)
                             for _ in range(rng.randint(0, 7))))
    a = '/' + '/'.join(parts)
    if rng.random() < 0.03:
        a += rng.choice(_NONASCII)
    return a


def gen_str(rng, nonascii=None):
    n = rng.choice([0, 1, 2, 3, 4, 5, 6, 7, 8, 11, 12, 13, rng.randint(0, 40),
                    rng.randint(0, 40), rng.randint(40, 400)])
    if nonascii is None:
        nonascii = rng.random() < 0.35
    if not nonascii:
        s = ''.join(rng.choice(_ASCII) for _ in range(n))
    else:
        p = rng.choice([0.1, 0.5, 1.0])
        s = ''.join(rng.choice(_NONASCII) if rng.random() < p
                    else rng.choice(_ASCII) for _ in range(n))
    if s in ('[', ']'):
        s += 'x'
    return s


def gen_blob(rng, aligned=None):
    n = rng.choice([1, 2, 3, 4, 5, 6, 7, 8, 9, rng.randint(1, 70),
                    rng.randint(1, 70), rng.randint(1, 70),
                    rng.randint(70, 6000)])
    if aligned is True:
        n = max(4, n // 4 * 4)
    b = rng.randbytes(n)
    k = rng.random()
    if k < 0.8:
        return b
    if k < 0.9:
        return bytearray(b)
    if k < 0.935:
        return memoryview(b)
    if k < 0.97:
        # writable view over a buffer the application goes on using (what
        # io.BytesIO.getbuffer() / SynthDef.as_bytes() hand out)
        return memoryview(bytearray(b))
    if len(b) < 8:
        return memoryview(b)
    # buffers whose items are not single bytes (array('i'), cast views)
    b = b[:len(b) // 8 * 8]
    return memoryview(b).cast(rng.choice(['H', 'i', 'd', 'I']))


def gen_float(rng):
    k = rng.random()
    if k < 0.3:
        return rng.choice([0.0, -0.0, 0.5, 1.0, -1.0, 440.0, 0.75, 1e-3, 0.1,
                           3.4028234663852886e38, -3.4028234663852886e38,
                           1.401298464324817e-45, 1e-46, 1e-50, 16777217.0])
    if k < 0.6:
        return rng.uniform(-1000, 1000)
    if k < 0.8:
        return rng.uniform(-1, 1) * 10 ** rng.randint(-40, 38)
    if k < 0.9:
        return osc.f32(rng.uniform(-1e6, 1e6))
    return rng.choice([float('inf'), float('-inf'), float('nan')])


def gen_int(rng):
    k = rng.random()
    if k < 0.5:
        return rng.randint(-100, 2000)
    if k < 0.8:
        return rng.randint(I32_MIN, I32_MAX)
    return rng.choice([I32_MIN, I32_MAX, I32_MIN + 1, I32_MAX - 1, 0, -1])


HOSTILE = ['int-big', 'float-big', 'str-nul', 'blob-empty', 'unsupported',
           'unbalanced', 'surrogate', 'unshaped-list', 'addr-empty',
           'nested-addr-nul', 'addr-noslash', 'midi-range', 'time-special']


def gen_hostile(rng, kind):
    if kind == 'int-big':
        return rng.choice([2 ** 31, -2 ** 31 - 1, 2 ** 32, 2 ** 40, -2 ** 63,
                           2 ** 64 + 5, rng.randint(2 ** 31, 2 ** 33)])
    if kind == 'float-big':
        return rng.choice([3.4028235677973366e38, 1e39, -1e39, 1e300, -1e308,
                           3.5e38])
    if kind == 'str-nul':
        s = gen_str(rng, False) + 'ab'
        k = rng.randint(0, len(s) - 1)
        return s[:k] + '\0' + s[k:]
    if kind == 'blob-empty':
        return rng.choice([b'', bytearray()])
    if kind == 'unsupported':
        return rng.choice([3 + 4j, {}, {'a': 1}, frozenset(), object(), 1.5j,
                           range(3), (1, 2), ()])
    if kind == 'surrogate':
        return 'ab\ud800c'
    if kind == 'unshaped-list':
        return rng.choice([[1], [1, 2], [[1]], [0.5], [None], [b'x', 1]])
    if kind == 'nested-addr-nul':
        return ['/a\0b', 1]
    if kind == 'midi-range':
        t = [rng.randint(0, 255) for _ in range(4)]
        t[rng.randrange(4)] = rng.choice([256, -1, 1000, 2 ** 31, -128, 511])
        return tuple(t)
    if kind == 'time-special':        # only meaningful as a bundle time
        return rng.randint(0, 9)
    raise AssertionError(kind)


def gen_value(rng, depth=0):
    """One representable argument value."""
    k = rng.random()
    if k < 0.20:
        return gen_int(rng)
    if k < 0.38:
        return gen_float(rng)
    if k < 0.58:
        return gen_str(rng)
    if k < 0.76:
        return gen_blob(rng)
    if k < 0.82:
        return rng.choice([True, False])
    if k < 0.86:
        return None
    if k < 0.89:
        return []
    if k < 0.90:
        return tuple(rng.randint(0, 255) for _ in range(4))
    if depth >= 3:
        return gen_int(rng)
    if k < 0.96:
        return gen_msg(rng, depth + 1, hostile=None, maxargs=4)
    return gen_bundle(rng, depth + 1, as_arg=True)


def gen_msg(rng, depth=0, hostile=None, maxargs=10):
    """A message list.  hostile: None or one of HOSTILE placed somewhere."""
    nargs = rng.choice([0, 1, 1, 2, 3, rng.randint(0, maxargs)])
    args = []
    open_arrays = 0
    for _ in range(nargs):
        r = rng.random()
        if r < 0.06 and depth == 0 or r < 0.02:
            args.append('[')
            open_arrays += 1
        elif open_arrays and r < 0.25:
            args.append(']')
            open_arrays -= 1
        else:
            args.append(gen_value(rng, depth))
    args += [']'] * open_arrays
    addr = gen_addr(rng, plain=depth > 0 and rng.random() < 0.7)
    if hostile == 'addr-empty':
        addr = ''
    elif hostile == 'addr-noslash':
        addr = rng.choice(['status', 'n_set', 'a/b', addr[1:] + 'x'])
    elif hostile == 'unbalanced':
        if rng.random() < 0.5:
            args.insert(rng.randint(0, len(args)), '[')
        else:
            args.insert(rng.randint(0, len(args)), ']')
            args = [a for a in args if not (isinstance(a, str) and a == '[')]
    elif hostile:
        args.insert(rng.randint(0, len(args)), gen_hostile(rng, hostile))
    return [addr] + args


LATENCIES = [None, -1, -0.5, 0, 0.0, -0.0, 1e-9, 0.2, 0.2, 1, 3, 3.0, 17.25,
             True, False]
TIME_SPECIALS = [float('nan'), float('inf'), float('-inf'), 1e30, 1e12, 1e9,
                 2.0 ** 31, 4.0e9]


def gen_latency(rng):
    if rng.random() < 0.8:
        return rng.choice(LATENCIES)
    return rng.choice([rng.uniform(0, 10), rng.uniform(-2, 0), rng.randint(0, 100)])


def gen_bundle(rng, depth=0, as_arg=False, order='any', hostile=None):
    """A bundle list [time, elements...].  order: 'ok' makes nested times
    non-decreasing along every path (acceptable), 'any' draws them freely,
    'tie' gives EXACTLY equal times to (most) bundles of all levels - one
    latency everywhere, or None / one negative value (immediately) everywhere
    - with sibling nested bundles and messages after them, depth 2-4."""
    tie = rng.choice([None, None, -1, 0, 0.0, 0.5, 0.2, 3, rng.uniform(0, 2)])

    def rec(d, parent):
        t = gen_latency(rng)
        if order == 'ok' and parent != 'top':
            pimm = parent is None or parent < 0
            if not pimm:
                t = parent + rng.choice([0, 0, 0.25, 1, rng.uniform(0, 2)])
        if order == 'tie':
            t = tie if parent == 'top' else parent
            if t is not None and t >= 0 and rng.random() < 0.15:
                t = t + rng.choice([0.25, 1])        # a few later ones among
            n = rng.choice([2, 3, 3, 4, 5])
            els = []
            for k in range(n):
                p = (0.55 if d < depth + 2 else 0.3) if d < depth + 4 else 0
                if rng.random() < p or (d == depth and k == 1):
                    els.append(rec(d + 1, t))
                else:
                    els.append(gen_msg(rng, max(d, 1), maxargs=2))
            return [t] + els
        n = rng.choice([1, 1, 2, 3, rng.randint(0, 6)])
        if as_arg and d == depth:
            n = max(n, 1)
        els = []
        for _ in range(n):
            if d < 5 and rng.random() < (0.35 if d < 2 else 0.2):
                els.append(rec(d + 1, t))
            else:
                els.append(gen_msg(rng, max(d, 1), maxargs=4))
        return [t] + els
    b = rec(depth, 'top')
    if as_arg and not isinstance(b[1], list):
        b.insert(1, ['/x'])
    if hostile == 'time-special':
        # a time that is not a finite number or is far outside what a 64 bit
        # timetag holds, on the bundle itself or on a nested one
        bs = [b]

        def collb(x):
            for e in x[1:]:
                if not isinstance(e[0], str):
                    bs.append(e)
                    collb(e)
        collb(b)
        rng.choice(bs)[0] = rng.choice(TIME_SPECIALS)
    elif hostile:
        # put one hostile value into one message of the bundle
        msgs = []

        def coll(x):
            for e in x[1:]:
                if isinstance(e[0], str):
                    msgs.append(e)
                else:
                    coll(e)
        coll(b)
        if msgs:
            m = rng.choice(msgs)
            if hostile == 'addr-empty':
                m[0] = ''
            elif hostile == 'addr-noslash':
                m[0] = 'n_set'
            elif hostile == 'unbalanced':
                m.append('[')
            else:
                m.insert(rng.randint(1, len(m)), gen_hostile(rng, hostile))
    return b


def neutralize(lst, which):
    """Copy of a message / bundle list with the same encoded size in which
    one feature is removed: which='blob' pads every unaligned blob with
    zeros to a multiple of 4, which='str' replaces every non-ASCII string
    argument by an ASCII string with the same number of UTF-8 bytes.  A size
    predictor that is right about the feature predicts the same for both."""
    def val(a):
        if which == 'blob' and isinstance(a, (bytes, bytearray, memoryview)):
            raw = bytes(a)
            return raw + b'\0' * (-len(raw) % 4) if len(raw) % 4 else a
        if which == 'mview' and isinstance(a, memoryview):
            return bytes(a)
        if which == 'str' and isinstance(a, str) and a not in ('[', ']'):
            n = len(a.encode('utf-8'))
            return a if n == len(a) else 'x' * n
        if isinstance(a, list) and a:
            return packet(a)
        return a

    def packet(x):
        return [x[0]] + [val(a) if isinstance(x[0], str) else
                         (packet(a) if isinstance(a, list) and a else a)
                         for a in x[1:]]
    return packet(lst)


def srepr(x):
    """repr without memory addresses (memoryview / bytearray / object)."""
    if isinstance(x, (bytearray, memoryview)):
        try:
            return f'{type(x).__name__}({bytes(x)!r})'
        except ValueError:          # a view somebody released
            return 'memoryview(<released>)'
    if isinstance(x, list):
        return '[' + ', '.join(srepr(e) for e in x) + ']'
    if isinstance(x, tuple):
        return '(' + ', '.join(srepr(e) for e in x) + ',)'
    if type(x) is object:
        return 'object()'
    return repr(x)


# --------------------------------------------------------------------------
# arguments are inputs: snapshots of the caller's objects
# --------------------------------------------------------------------------

def snapshot(x):
    """Deep immutable snapshot of an OSC list (or any argument value): what
    the caller's objects held before the library saw them."""
    if isinstance(x, bytearray):
        return ('bytearray', bytes(x))
    if isinstance(x, memoryview):
        try:
            return ('memoryview', bytes(x), x.format, x.shape)
        except ValueError:
            return ('memoryview-released',)
    if isinstance(x, list):
        return ('list', tuple(snapshot(e) for e in x))
    if isinstance(x, tuple):
        return ('tuple', tuple(snapshot(e) for e in x))
    if isinstance(x, float):
        return ('float', struct.pack('>d', x))
    if type(x) in (int, bool, str, bytes, type(None)):
        return (type(x).__name__, x)
    return ('other', type(x).__name__, srepr(x))


def mutations(snap, x, role='packet'):
    """Kinds of difference between the snapshot `snap` (taken before the
    first send) and the object graph `x` as it is now; empty set: untouched.
    Kinds name the mutable object that changed, not where it sat."""
    out = set()

    def rec(s, v, role):
        now = snapshot(v) if not isinstance(v, (list, tuple)) else None
        if s[0] in ('list', 'tuple'):
            if type(v).__name__ != s[0]:
                out.add('element-replaced')
                return
            kids = s[1]
            if len(v) != len(kids):
                k = 'element-list' if role == 'elements' else (
                    'bundle-list' if kids and kids[0][0] in
                    ('int', 'float', 'NoneType', 'bool') and s[0] == 'list'
                    else 'message-list' if s[0] == 'list' else 'tuple')
                out.add(f'{k}-length-changed')
                return
            for ks, kv in zip(kids, v):
                rec(ks, kv, 'packet')
            return
        if now == s:
            return
        if now[0] != s[0]:
            out.add('memoryview-released' if now[0] == 'memoryview-released'
                    else 'element-replaced')
        elif s[0] == 'bytearray':
            out.add('bytearray-blob-resized' if len(now[1]) != len(s[1])
                    else 'bytearray-blob-content')
        elif s[0] == 'memoryview':
            out.add('memoryview-blob-content' if now[2:] == s[2:]
                    else 'memoryview-blob-reshaped')
        else:
            out.add('element-replaced')
    rec(snap, x, role)
    return out


def clone(x):
    """Independent deep copy of an OSC list (copy.deepcopy cannot copy
    memoryviews): lists and bytearrays are copied, a memoryview becomes a
    view with the same format over a private copy of its bytes."""
    if isinstance(x, list):
        return [clone(e) for e in x]
    if isinstance(x, bytearray):
        return bytearray(x)
    if isinstance(x, memoryview):
        m = memoryview(bytes(x))
        return m if x.format == 'B' and x.ndim == 1 else m.cast(x.format)
    return x


def has_mutable_blob(x):
    if isinstance(x, list):
        return any(has_mutable_blob(e) for e in x)
    if isinstance(x, memoryview):
        try:
            return not x.readonly
        except ValueError:          # released
            return True
    return isinstance(x, bytearray)


def untimed(exp):
    """Expected tree in which every timetag that depends on the send instant
    is left open (None); 'immediately' (1) stays."""
    def args(nodes):
        out = []
        for e in nodes:
            if e[0] == 'arr':
                out.append(('arr', args(e[1])))
            elif e[0] in ('blobmsg', 'blobbundle'):
                out.append((e[0], untimed(e[1])))
            else:
                out.append(e)
        return out
    if exp[0] == 'msg':
        return ('msg', exp[1], args(exp[2]))
    return ('bundle', exp[1] if exp[1] == IMMEDIATELY else None,
            [untimed(e) for e in exp[2]])


def features_nontrivial(feats):
    return bool(feats & {'blob-unaligned', 'str-non-ascii', 'nested-msg',
                         'nested-bundle', 'array', 'coerced-none',
                         'coerced-bool', 'coerced-empty-list',
                         'nested-bundle-element'})
