"""Reference model of OSC message dispatch (does NOT import sc3).

Two parts, both written from the OSC 1.0 specification and the documentation
of OscFunc, not from the implementation:

1. `osc_match(pattern, address)` - OSC 1.0 address pattern matching.

   Spec ("OSC Message Dispatching and Pattern Matching"): an address pattern
   matches an address if both have the same number of '/'-separated parts and
   every part of the pattern matches the corresponding part of the address.
   Inside a part:
     ?        any single character
     *        any sequence of zero or more characters
     [chars]  any character in the string; `a-b` is the ASCII range, a '-'
              at the end of the string has no special meaning, a leading '!'
              negates, '!' anywhere else has no special meaning
     {a,b}    any of the comma separated strings
     other    itself
   Since matching is per part, no construct can match '/'.  The whole part
   (hence the whole address) has to be consumed.

   Knobs `cross_slash` / `prefix` implement two *wrong* readings and exist only
   so that the check can name the mechanism of a disagreement.

2. `DispatchModel` - the set of responders and which of them a message must,
   must not, or may invoke (three-valued, so that every behaviour the property
   statement leaves open is accepted).
"""


class PatternError(ValueError):
    pass


# ---------------------------------------------------------------- patterns

SPECIAL = set('?*[]{},!-')            # chars with a meaning somewhere in a pattern
FORBIDDEN_IN_ADDRESS = set(' #*,/?[]{}')   # OSC 1.0: not allowed in method names


def parse_part(part):
    """One '/'-free part of a pattern -> token list.
    ('lit', c) ('one',) ('star',) ('set', negate, frozenset) ('alt', (s, ...))"""
    toks = []
    i, n = 0, len(part)
    while i < n:
        c = part[i]
        if c == '?':
            toks.append(('one',)); i += 1
        elif c == '*':
            toks.append(('star',)); i += 1
        elif c == '[':
            j = part.find(']', i + 1)
            if j < 0:
                raise PatternError('unterminated [')
            body = part[i + 1:j]
            neg = body.startswith('!')
            if neg:
                body = body[1:]
            if not body:
                raise PatternError('empty []')
            chars = set()
            k = 0
            while k < len(body):
                if k + 2 < len(body) and body[k + 1] == '-':
                    lo, hi = ord(body[k]), ord(body[k + 2])
                    if lo > hi:
                        raise PatternError('descending range')
                    chars.update(chr(x) for x in range(lo, hi + 1))
                    k += 3
                else:
                    chars.add(body[k])      # includes a trailing '-' and '!'
                    k += 1
            if '[' in body or '{' in body or '}' in body:
                raise PatternError('nested construct in []')
            toks.append(('set', neg, frozenset(chars))); i = j + 1
        elif c == '{':
            j = part.find('}', i + 1)
            if j < 0:
                raise PatternError('unterminated {')
            body = part[i + 1:j]
            if any(ch in body for ch in '[]{*?'):
                raise PatternError('nested construct in {}')
            toks.append(('alt', tuple(body.split(',')))); i = j + 1
        elif c in ']}':
            raise PatternError('unbalanced ' + c)
        elif c == ',':
            raise PatternError('comma outside {}')
        else:
            toks.append(('lit', c)); i += 1
    return toks


def _match_toks(toks, ti, s, si, slash_ok):
    """Backtracking match of toks[ti:] against s[si:], whole remainder."""
    while ti < len(toks):
        t = toks[ti]
        k = t[0]
        if k == 'lit':
            if si < len(s) and s[si] == t[1]:
                si += 1; ti += 1; continue
            return False
        if k == 'one':
            if si < len(s) and (slash_ok or s[si] != '/'):
                si += 1; ti += 1; continue
            return False
        if k == 'set':
            if si < len(s) and ((s[si] in t[2]) != t[1]) \
                    and (slash_ok or s[si] != '/'):
                si += 1; ti += 1; continue
            return False
        if k == 'alt':
            for a in t[1]:
                if s.startswith(a, si) and _match_toks(toks, ti + 1, s,
                                                       si + len(a), slash_ok):
                    return True
            return False
        if k == 'star':
            # zero or more characters
            j = si
            while True:
                if _match_toks(toks, ti + 1, s, j, slash_ok):
                    return True
                if j >= len(s) or (not slash_ok and s[j] == '/'):
                    return False
                j += 1
        if k == 'end_anywhere':
            return True
        raise AssertionError(k)
    return si == len(s)


def well_formed(pattern):
    try:
        for p in pattern.split('/'):
            parse_part(p)
    except PatternError:
        return False
    return True


def osc_match(pattern, address, cross_slash=False, prefix=False):
    """OSC 1.0: does `pattern` match `address` (a pattern-free string)?
    Raises PatternError on malformed patterns."""
    if not cross_slash and not prefix:
        pp = pattern.split('/')
        ap = address.split('/')
        if len(pp) != len(ap):
            for p in pp:
                parse_part(p)            # still report malformed patterns
            return False
        ok = True
        for p, a in zip(pp, ap):
            if not _match_toks(parse_part(p), 0, a, 0, False):
                ok = False
        return ok
    # deliberately wrong readings, used only to classify disagreements
    toks = []
    for n, p in enumerate(pattern.split('/')):
        if n:
            toks.append(('lit', '/'))
        toks.extend(parse_part(p))
    if prefix:
        toks.append(('end_anywhere',))
    return _match_toks(toks, 0, address, 0, cross_slash)


def pattern_features(pattern):
    f = set()
    for p in pattern.split('/'):
        for t in parse_part(p):
            if t[0] == 'set':
                f.add('[!]' if t[1] else '[]')
            elif t[0] != 'lit':
                f.add({'one': '?', 'star': '*', 'alt': '{}'}[t[0]])
    if '-]' in pattern:
        f.add('trailing-minus')
    return f


def classify_pattern_disagreement(pattern, address, real_matched):
    """Mechanism name for real != osc_match(pattern, address)."""
    try:
        if '-]' in pattern:
            # reading that drops a '-' before ']' instead of taking it literally
            alt = pattern.replace('-]', ']')
            loose = dict(cross_slash=True, prefix=True)
            if not well_formed(alt) or (
                    osc_match(alt, address, **loose) == real_matched
                    and osc_match(pattern, address, **loose) != real_matched):
                return 'trailing-minus-in-brackets'
        if real_matched and any(t[0] == 'set' and not t[1] and '/' in t[2]
                                for p in pattern.split('/') for t in parse_part(p)):
            # e.g. [!-~]: the ASCII range contains '/', the part still cannot
            return 'bracket-range-spans-slash'
        if real_matched:
            if osc_match(pattern, address, prefix=True):
                return 'prefix-of-address-accepted'
            if osc_match(pattern, address, cross_slash=True):
                return 'wildcard-crosses-slash'
            if osc_match(pattern, address, cross_slash=True, prefix=True):
                # needs both wrong readings; filed under the first
                return 'prefix-of-address-accepted'
            return 'accepts-nonmatching'
        # spec says match, implementation says no
        feats = sorted(pattern_features(pattern))
        return 'rejects-matching/' + ('+'.join(feats) if feats else 'literal')
    except PatternError:
        import re
        if ',' in re.sub(r'\{[^{}]*\}', '', pattern):
            return 'malformed-pattern/comma-outside-braces'
        return 'malformed-pattern'


def pattern_key(real_matched, cls):
    """Mechanism key of a matcher disagreement (one key per defect, whichever
    side it shows on)."""
    if cls == 'trailing-minus-in-brackets':
        return 'C18/pattern-mismatch/trailing-minus-in-brackets'
    side = 'unexpected-invocation' if real_matched else 'missed-invocation'
    return f'C18/{side}/pattern/{cls}'


# ---------------------------------------------------------------- templates

PREDICATES = {
    # total on every OSC argument type (never raise)
    'is_num': lambda x: isinstance(x, (int, float)) and not isinstance(x, bool),
    'is_str': lambda x: isinstance(x, str),
    'gt2': lambda x: isinstance(x, (int, float)) and not isinstance(x, bool) and x > 2,
    'even': lambda x: isinstance(x, int) and not isinstance(x, bool) and x % 2 == 0,
    'never': lambda x: False,
    'always': lambda x: True,
    # (round 8) predicates that would hold for a value that is not an OSC
    # argument at all (None): only ever evaluated here on message arguments
    'not3': lambda x: x != 3,
    'falsy': lambda x: not x,
    'lt5': lambda x: isinstance(x, (int, float)) and not isinstance(x, bool) and x < 5,
}


def template_verdict(template, args):
    """template: None or list of items: None | ('val', v) | ('fn', name).
    -> 'accept' | 'reject' | 'either'.

    Documentation of OscFunc: items are matched by position, None matches any
    value, a function is evaluated with the value and must return a bool.  For
    positions the message does not have, a value item has nothing it could
    equal (reject); None / function items are left open (either), as the
    documentation does not say whether such a responder responds.  (What the
    documentation does decide for function items - 'evaluated with the
    corresponding message's value at the same position' - is monitored on the
    real side: a predicate is never evaluated with anything but the argument of
    the message at its position, see c18_hist.check_predicate_calls.)"""
    if template is None:
        return 'accept'
    verdict = 'accept'
    for i, item in enumerate(template):
        if i >= len(args):
            if item is not None and item[0] == 'val':
                return 'reject'
            verdict = 'either'
            continue
        if item is None:
            continue
        if item[0] == 'val':
            if args[i] != item[1]:
                return 'reject'
            if isinstance(args[i], bool) != isinstance(item[1], bool):
                verdict = 'either'     # True == 1 in Python; left open
        elif item[0] == 'fn':
            if not PREDICATES[item[1]](args[i]):
                return 'reject'
    return verdict


# ---------------------------------------------------------------- responders

class Resp:
    __slots__ = ('rid', 'kind', 'path', 'src', 'recv_port', 'template',
                 'enabled', 'freed', 'one_shot', 'spent', 'permanent',
                 'created', 'enabled_at', 'fver', 'cmdp_since_enable',
                 'perm_set_while_disabled', 'replaced_after_one_shot', 'disp')

    def __init__(self, rid, kind, path, src, recv_port, template, seq, disp=0):
        self.rid = rid
        self.kind = kind              # 'exact' | 'match'
        self.disp = disp              # 0 class default dispatcher | n a dispatcher
                                      # instance given to the constructor
        self.path = path
        self.src = src                # None | (ip, port|None)
        self.recv_port = recv_port    # None | int
        self.template = template
        self.enabled = True
        self.freed = False
        self.one_shot = False
        self.spent = False
        self.permanent = False
        self.created = seq
        self.enabled_at = seq
        self.fver = 0
        self.cmdp_since_enable = False
        self.perm_set_while_disabled = False
        self.replaced_after_one_shot = False

    def clone(self):
        c = Resp.__new__(Resp)
        for k in Resp.__slots__:
            setattr(c, k, getattr(self, k))
        return c

    def state(self):
        if self.spent:
            return 'spent-one-shot'
        if self.freed:
            return 'freed'
        if not self.enabled:
            return 'disabled'
        return 'enabled'

    def describe(self):
        return {'rid': self.rid, 'kind': self.kind, 'path': self.path,
                'src': self.src, 'recv_port': self.recv_port,
                'template': self.template, 'state': self.state(),
                'one_shot': self.one_shot, 'permanent': self.permanent,
                'fver': self.fver, 'dispatcher': self.disp}


class DispatchModel:
    def __init__(self):
        self.resps = {}
        self.seq = 0
        self.next_rid = 0

    def _tick(self):
        self.seq += 1
        return self.seq

    # -- operations ----------------------------------------------------
    def create(self, kind, path, src=None, recv_port=None, template=None,
               rid=None, disp=0):
        if rid is None:
            rid = self.next_rid
        self.next_rid = max(self.next_rid, rid) + 1
        self.resps[rid] = Resp(rid, kind, path, src, recv_port, template,
                               self._tick(), disp)
        return rid

    def clone(self):
        """Independent copy (the real-time shard keeps one per operation
        prefix of a round)."""
        c = DispatchModel()
        c.seq, c.next_rid = self.seq, self.next_rid
        c.resps = {rid: r.clone() for rid, r in self.resps.items()}
        return c

    def enable(self, rid):
        r = self.resps[rid]
        if not r.enabled:
            r.enabled = True
            r.enabled_at = self._tick()
            r.cmdp_since_enable = False

    def disable(self, rid):
        self.resps[rid].enabled = False

    def free(self, rid):
        r = self.resps[rid]
        r.enabled = False
        r.freed = True

    def one_shot(self, rid):
        self.resps[rid].one_shot = True

    def set_func(self, rid):
        # replacing the function does not change what kind of responder it is:
        # a one-shot responder stays a one-shot responder
        r = self.resps[rid]
        r.fver += 1
        if r.one_shot:
            r.replaced_after_one_shot = True
        return r.fver

    def set_permanent(self, rid, value):
        r = self.resps[rid]
        r.permanent = bool(value)
        if not r.enabled:
            r.perm_set_while_disabled = True

    def cmd_period(self):
        for r in self.resps.values():
            if r.enabled:
                r.cmdp_since_enable = True
                if not r.permanent:
                    r.enabled = False
                    r.freed = True

    def fired(self, rid):
        """Bookkeeping after an (expected) invocation."""
        r = self.resps[rid]
        if r.one_shot:
            r.enabled = False
            r.freed = True
            r.spent = True

    # -- oracle ----------------------------------------------------------
    def address_accepts(self, r, address):
        if r.kind == 'exact':
            return address == r.path
        try:
            return osc_match(address, r.path)
        except PatternError:
            return False          # a malformed pattern matches nothing

    def verdict(self, r, address, args, sender, recv_port):
        """'must' | 'not' | 'either' for one responder and one message.
        Raises PatternError if address is a malformed pattern and r matching."""
        if not r.enabled or r.freed:
            return 'not'
        if not self.address_accepts(r, address):
            return 'not'
        if r.src is not None:
            ip, port = r.src
            if ip != sender[0] or (port is not None and port != sender[1]):
                return 'not'
        if r.recv_port is not None and r.recv_port != recv_port:
            return 'not'
        tv = template_verdict(r.template, args)
        return {'accept': 'must', 'reject': 'not', 'either': 'either'}[tv]

    def expectations(self, address, args, sender, recv_port):
        return {rid: self.verdict(r, address, args, sender, recv_port)
                for rid, r in self.resps.items()}

    def order_constrained(self, a, b):
        """True if a must be invoked before b when both are invoked: same
        dispatcher and path, and both readings of 'registration order'
        (creation, last enabling) agree."""
        ra, rb = self.resps[a], self.resps[b]
        return (ra.kind == rb.kind and ra.disp == rb.disp and ra.path == rb.path
                and ra.created < rb.created and ra.enabled_at < rb.enabled_at)

    def why_not(self, r, address, args, sender, recv_port):
        """Which clause rejects (used for mechanism keys of unexpected
        invocations)."""
        if r.spent:
            return 'invoked-after-one-shot-fired'
        if r.freed:
            return 'invoked-while-freed'
        if not r.enabled:
            return 'invoked-while-disabled'
        if not self.address_accepts(r, address):
            if r.kind == 'exact':
                return 'exact-path-differs'
            return 'pattern/' + classify_pattern_disagreement(address, r.path, True)
        if r.src is not None:
            ip, port = r.src
            if ip != sender[0] or (port is not None and port != sender[1]):
                return 'src-filter-ignored'
        if r.recv_port is not None and r.recv_port != recv_port:
            return 'recv-port-filter-ignored'
        return 'arg-template-ignored'


# ---------------------------------------------------------------- self test

def selftest():
    T, F = True, False
    table = [
        ('/foo', '/foo', T), ('/foo', '/foobar', F), ('/fo', '/foo', F),
        ('/foo*', '/foobar', T), ('/foo*', '/foo', T), ('/*', '/a/b', F),
        ('/a/*', '/a/b', T), ('/a/*', '/a/b/c', F), ('/a/*/c', '/a/b/c', T),
        ('/?', '/a', T), ('/?', '/', F), ('/a?c', '/a/c', F), ('/a?c', '/abc', T),
        ('/[abc]', '/b', T), ('/[abc]', '/d', F), ('/[a-c]x', '/bx', T),
        ('/[!a-c]x', '/bx', F), ('/[!a-c]x', '/dx', T), ('/a[!b]c', '/a/c', F),
        ('/[a-]', '/-', T), ('/[a-]', '/a', T), ('/[a-]', '/b', F),
        ('/[a!]', '/!', T), ('/{foo,bar}', '/bar', T), ('/{foo,bar}', '/baz', F),
        ('/{a,ab}c', '/abc', T), ('/x{1,2}/y', '/x2/y', T), ('/*b*', '/abc', T),
        ('/*b*', '/acc', F), ('/**', '/', T), ('/a.c', '/abc', F), ('/a.c', '/a.c', T),
        ('/a+', '/aa', F), ('/(a)', '/(a)', T), ('/a|b', '/a', F), ('/$', '/$', T),
        ('/*/b', '/a/b', T), ('/*/b', '/b', F), ('/a*', '/a/b', F),
    ]
    for p, a, exp in table:
        got = osc_match(p, a)
        assert got == exp, (p, a, got, exp)
    assert osc_match('/fo', '/foo', prefix=True)
    assert osc_match('/a/*', '/a/b/c', cross_slash=True)
    for bad in ('/[', '/{a', '/a]', '/a}', '/[c-a]', '/[]', '/a,b'):
        assert not well_formed(bad), bad
    assert classify_pattern_disagreement('/fo', '/foo', True) == \
        'prefix-of-address-accepted'
    assert classify_pattern_disagreement('/a*c', '/a/bc', True) == \
        'wildcard-crosses-slash'
    assert template_verdict([('val', 1), None], [1]) == 'either'
    assert template_verdict([('val', 1), ('val', 2)], [1]) == 'reject'
    assert template_verdict([('val', 1)], [1, 2, 3]) == 'accept'
    assert template_verdict([('fn', 'gt2')], ['x']) == 'reject'
    return True
