"""Lock-discipline monitor (Eraser style, one lock): every access to a clock's
task queue must happen with the library's main lock owned by the current
thread.  Installed by wrapping the TaskQueue methods from the harness; a
dropped or narrowed lock is reported even when no misordering was visible."""

import sys


class LockMon:
    def __init__(self):
        self.bad = {}        # (method, caller qualname) -> count
        self.checked = 0
        self._orig = {}

    def install(self):
        from sc3.base import _taskq
        from sc3.base.main import main
        TQ = _taskq.TaskQueue
        mon = self
        owned = main._main_lock._is_owned
        atexitq = main._atexitq
        for name in ('add', 'remove', 'pop', 'clear', 'peek', 'empty'):
            orig = getattr(TQ, name)
            self._orig[name] = orig

            def wrap(self, *a, __orig=orig, __name=name, **k):
                if self is not atexitq:
                    mon.checked += 1
                    if not owned():
                        f = sys._getframe(1)
                        key = (__name, f.f_code.co_qualname)
                        mon.bad[key] = mon.bad.get(key, 0) + 1
                return __orig(self, *a, **k)
            setattr(TQ, name, wrap)
        return self

    def uninstall(self):
        from sc3.base import _taskq
        for name, orig in self._orig.items():
            setattr(_taskq.TaskQueue, name, orig)
