"""C18 TCP receive path: the library's OscTcpInterface (NetAddr.connect) reads
size-prefixed OSC packets from a byte stream.  The harness is the peer: it
accepts the library's connection and writes valid frames whole, coalesced,
or cut at arbitrary byte positions (also inside the 4-byte size prefix, and
frames larger than a socket buffer), then a canary frame.  Every message must
be delivered exactly once, in order, with the peer as sender and the local
port of the connection as receive port; the receiver must survive.

No verdict depends on elapsed time: if the canary frame has not been
dispatched after a few seconds the harness only *ends the stream*, waits for
the reader thread to run into EOF and terminate and for SystemClock to flush,
and then judges the final state (every byte was offered, the reader is done).
A reader that is still running 30 s after EOF makes the shard inconclusive.
The 2 ms pauses between fragments merely make it likely that the reader sees
a fragment alone; a pause it does not observe makes the case less effective,
never wrong."""

import socket
import struct
import threading
import time

from . import osc
from . import c18_gen as gen
from .common import iter_cases, case_rng, h64
from .c18_rig import CANARY, same_value


def frame(d):
    return struct.pack('>i', len(d)) + d


class Peer:
    """The harness end of one TCP connection of the library.

    `block` > 0: other programs (listening sockets of the harness) hold the
    first `block` local ports the library would bind the connection to - the
    default lang_port() + 1 ..., or the documented `local_port` argument of
    NetAddr.connect (explicit=True) - so the socket ends up on a later port of
    the range.  The port messages of this connection arrive on is what the
    kernel of the accepting side reports as the connection's remote port
    (`self.port`), never what the library says about it."""

    def __init__(self, rig, block=0, explicit=False):
        from sc3.base.netaddr import NetAddr
        self.rig = rig
        self.blockers, self.blocked = [], set()
        self.srv = socket.socket()
        self.srv.bind(('127.0.0.1', 0))
        self.srv.listen(1)
        self.addr = self.srv.getsockname()
        self.target = NetAddr('127.0.0.1', self.addr[1])
        kw = {}
        if explicit:
            probe = socket.socket()
            probe.bind(('127.0.0.1', 0))
            self.first = probe.getsockname()[1]
            if block:
                probe.listen(1)
                self.blockers.append(probe)
                self.blocked.add(self.first)
            else:
                probe.close()
            kw['local_port'] = self.first
        else:
            self.first = NetAddr.lang_port() + 1
        for p in range(self.first, self.first + block):
            if p in self.blocked:
                continue
            b = socket.socket()
            try:
                b.bind(('127.0.0.1', p))
                b.listen(1)
                self.blockers.append(b)
                self.blocked.add(p)
            except OSError:
                # not available to the harness - which says nothing about the
                # library: its sockets may re-use the port of a connection that
                # was closed a moment ago (SO_REUSEADDR)
                b.close()
        done = threading.Event()
        self.ok = False
        self.conn = None
        self.port = None
        self.error = None
        try:
            self.target.connect(on_complete=lambda *a: done.set(), **kw)
            self.srv.settimeout(10)
            self.conn, self.lib_end = self.srv.accept()
            self.conn.setsockopt(socket.IPPROTO_TCP, socket.TCP_NODELAY, 1)
            self.ok = done.wait(10)
            self.port = self.lib_end[1]
        except OSError as e:
            self.error = str(e)
        self.itf = self.target._osc_interface
        self.walked = self.ok and self.port != self.first
        if self.ok and self.port in self.blocked:
            self.ok = False         # (cannot happen: the harness holds that port)
            self.error = 'connection came from a port the harness holds'

    def alive(self):
        t = getattr(self.itf, '_tcp_thread', None)
        return t is not None and t.is_alive()

    def close(self):
        try:
            self.target.disconnect()
        except Exception:
            pass
        for s in [self.conn, self.srv] + self.blockers:
            try:
                if s is not None:
                    s.close()
            except Exception:
                pass
        self.blockers = []


class PortResponders:
    """Standing responders of one connection, filtered on the receive port:
    one per path on the port the connection really uses (must fire once for
    every message of that path, with that port), one per path on the first
    candidate port when other programs held it (nothing of this connection
    arrived there: must stay silent)."""

    def __init__(self, rig, peer, acc):
        from sc3.base.responders import OscFunc
        self.rig, self.peer, self.acc = rig, peer, acc
        self.fired = []          # (which, uid, port handed over)
        self.objs = []
        self.opened = None
        for path in gen.HIST_PATHS:
            self.objs.append(OscFunc(self._cb('real'), path, recv_port=peer.port))
        if peer.walked:
            try:
                for path in gen.HIST_PATHS:
                    self.objs.append(OscFunc(self._cb('first'), path, recv_port=peer.first))
                acc.count('tcp_responders_on_first_candidate_port')
            except OSError:
                acc.count('tcp_first_candidate_udp_port_not_available')
            if rig.adopt_port(peer.first) is not None:
                self.opened = peer.first

    def _cb(self, which):
        def cb(msg, time, addr, port):
            self.fired.append((which, msg[1] if len(msg) > 1 else None, port))
        return cb

    def close(self):
        for o in self.objs:
            try:
                o.free()
            except Exception:
                pass
        if self.opened is not None:
            try:
                self.rig.close_port(self.opened)
            except Exception:
                pass


def connect(rig, acc, rng):
    """A fresh connection; two out of three behind 1-3 held ports."""
    block = rng.choice([0, 1, 1, 2, 3, 2])
    explicit = rng.random() < 0.4
    peer = Peer(rig, block=block, explicit=explicit)
    acc.count('tcp_connections')
    if peer.ok:
        acc.count(f"tcp_connections/{'local_port' if explicit else 'default'}/"
                  f"{'behind-held-ports' if peer.walked else 'first-port'}")
        if peer.walked:
            acc.count('tcp_connections_behind_held_ports')
    return peer


def run(spec, acc, rig=None, every=None):
    from .c18_rig import Rig
    if rig is None:
        rig = Rig()
    # a fresh connection every `every` cases (most of them behind ports other
    # programs hold), so that the receive port of a connection is not always
    # the first candidate
    every = every or max(20, spec['shard'].get('n', 1000) // 12)
    peer = resp = None
    uid = 0
    n_on_peer = 0
    for i in iter_cases(spec):
        rng = case_rng(spec['seed'], 'C18', 'tcp', i)
        if peer is None or n_on_peer >= every or not peer.alive() or not peer.ok:
            if peer is not None:
                resp.close()
                peer.close()
                acc.count('tcp_reconnects')
            peer = connect(rig, acc, case_rng(spec['seed'], 'C18', 'tcp-connect', i))
            if not peer.ok:
                acc.mark_inconclusive('TCP connection to the harness peer not established: '
                                      + str(peer.error))
                peer.close()
                return
            resp = PortResponders(rig, peer, acc)
            n_on_peer = 0
        n_on_peer += 1
        msgs = []
        for _ in range(rng.choice([1, 1, 2, 3, 4])):
            uid += 1
            args = [uid] + gen.rand_args(rng)
            if rng.random() < 0.04:
                args.append(bytes(rng.randrange(256) for _ in range(64)) * rng.choice([40, 3000]))
            msgs.append((rng.choice(gen.HIST_PATHS), args))
        stream = b''.join(frame(osc.enc_msg(a, *g)) for a, g in msgs)
        mode = rng.choice(['whole', 'coalesced', 'body-cut', 'size-cut', 'random-cuts'])
        if mode == 'whole':
            chunks = [frame(osc.enc_msg(a, *g)) for a, g in msgs]
        elif mode == 'coalesced':
            chunks = [stream]
        elif mode == 'size-cut':
            k = rng.randint(1, 3)
            chunks = [stream[:k], stream[k:]]
        elif mode == 'body-cut':
            k = rng.randint(5, max(5, len(frame(osc.enc_msg(*[msgs[0][0]] + msgs[0][1]))) - 1))
            chunks = [stream[:k], stream[k:]]
        else:
            cuts = sorted(rng.sample(range(1, len(stream)), min(len(stream) - 1,
                                                              rng.randint(1, 5))))
            chunks = [stream[a:b] for a, b in zip([0] + cuts, cuts + [len(stream)])]
        big = len(stream) > 60000
        cls = 'whole-frames' if mode in ('whole', 'coalesced') and not big else 'fragmented'
        rig.raw.clear(); rig.errs.clear(); resp.fired.clear()
        rig.mon.arm(len(stream))
        t0 = rig.main.elapsed_time()
        try:
            for c in chunks:
                peer.conn.sendall(c)
                if len(chunks) > 1:
                    time.sleep(0.002)       # let the reader see the fragment alone
            rig.canary_seq += 1
            rig.canary_ev.clear()
            peer.conn.sendall(frame(osc.enc_msg(CANARY, rig.canary_seq)))
        except OSError as e:
            acc.count('tcp_send_errors')
            peer.ok = False
            continue
        my_canary = rig.canary_seq
        ok = False
        deadline = time.monotonic() + 6.0
        while time.monotonic() < deadline:
            if rig.canary_ev.wait(0.05):
                ok = True
                break
            if not peer.alive():           # receive thread gone: nothing will come
                break
        if not ok:
            # No verdict on elapsed time.  Everything has been written: end the
            # stream, let the reader run into EOF and finish, flush SystemClock
            # with a canary through the UDP interface, and judge the final
            # state (a correct reader has by then delivered every frame).
            acc.count('tcp_stream_closed_to_decide')
            try:
                peer.conn.shutdown(socket.SHUT_WR)
            except OSError:
                pass
            t = getattr(peer.itf, '_tcp_thread', None)
            if t is not None:
                t.join(30.0)
            if t is not None and t.is_alive():
                acc.mark_inconclusive('tcp: reader still running 30 s after end of stream '
                                      '(starved host?)')
                peer.close()
                return
            if not rig._canary(False, 30.0):
                acc.mark_inconclusive('tcp: SystemClock did not dispatch a flush canary')
                peer.close()
                return
            ok = my_canary in rig.canaries_seen
            peer.ok = False                # next case: fresh connection
        t1 = rig.main.elapsed_time()
        acc.count('tcp_frames', len(msgs))
        acc.count('tcp_mode/' + mode)
        got = list(rig.raw)
        w = {'case': i, 'mode': mode, 'chunk_sizes': [len(c) for c in chunks][:8],
             'messages': [[a] + [x if not isinstance(x, bytes) or len(x) < 20 else
                                 f'<{len(x)} bytes>' for x in g] for a, g in msgs],
             'delivered': [[x if not isinstance(x, bytes) or len(x) < 20 else
                            f'<{len(x)} bytes>' for x in m] for m, *_ in got][:6],
             'canary_delivered': ok, 'receive_thread_alive': peer.alive(),
             'logged': [e['exc'] for e in rig.errs][:4],
             'connection': {'first_candidate_port': peer.first,
                            'held_by_others': sorted(peer.blocked),
                            'local_port_of_connection': peer.port,
                            'library_says': peer.itf.port}}
        acc.case(h64(repr((mode, [len(c) for c in chunks], msgs))),
                 nontrivial=cls == 'fragmented')
        bad = None
        if len(got) != len(msgs) or not ok:
            bad = 'message-lost' if ok else 'receiver-dead'
        else:
            for (m, t, sender, port), (a, g) in zip(got, msgs):
                if m[0] != a or not same_value(m[1:], g):
                    bad = 'wrong-message'
                elif port != peer.port:
                    bad = 'wrong-recv-port'
                elif sender != tuple(peer.addr):
                    bad = 'wrong-sender-or-port'
                elif not (t0 - 1e-6 <= t <= t1 + 1e-6):
                    bad = 'wrong-time'
        if bad == 'wrong-recv-port':
            acc.violation('C18/recv-port/tcp/not-the-port-of-the-connection'
                          + ('/behind-held-ports' if peer.walked else ''), dict(w, what=bad))
        elif bad:
            key = ('C18/tcp/fragmented-frame-not-reassembled' if cls == 'fragmented'
                   and bad in ('message-lost', 'receiver-dead', 'wrong-message')
                   else f'C18/tcp/{bad}/{cls}')
            acc.violation(key, dict(w, what=bad))
        else:
            acc.count('tcp_messages_delivered_exactly', len(msgs))
            if peer.walked:
                acc.count('tcp_messages_behind_held_ports', len(msgs))
            # responders filtered on the receive port
            fired = list(resp.fired)
            for a, g in msgs:
                n_real = [f for f in fired if f[0] == 'real' and f[1] == g[0]]
                n_first = [f for f in fired if f[0] == 'first' and f[1] == g[0]]
                acc.count('tcp_recv_port_filter_checks')
                fw = dict(w, message=[a, g[0]], fired=fired[:8])
                if n_first:
                    acc.violation('C18/recv-port/tcp/responder-on-a-port-held-by-others-fires',
                                  fw)
                    break
                if len(n_real) != 1:
                    acc.violation('C18/recv-port/tcp/responder-on-the-connection-port-'
                                  + ('silent' if not n_real else 'fires-twice'), fw)
                    break
                if n_real[0][2] != peer.port:
                    acc.violation('C18/recv-port/tcp/not-the-port-of-the-connection', fw)
                    break
        if acc.want_sample() and cls == 'fragmented' and len(stream) < 200:
            acc.sample({'kind': 'tcp', **w})
    if peer is not None:
        resp.close()
        peer.close()
