"""C19 - envelopes encode to the server format and evaluate consistently.

Monitors (all against the independent model vf/model_env.py, which is written
from the server's EnvGen array layout and shape numbers and does not import
sc3):

* encoding      Env(levels, times, curves, release, loop)._envgen_format() is
                compared column by column with model_env.encode();
* evaluation    Env._at(t) at, between, before and after the breakpoints is
                judged by model_env.value_ok() (level at a breakpoint, between
                the neighbouring levels inside a segment, last level after);
* definition    a SynthDef containing EnvGen.kr(env) is built, its bytes are
                decoded by vf/scgf.py and the constant inputs 5.. of every
                EnvGen unit are compared with the float32 image of the model
                encoding;
* constructors  every standard constructor is called with random subsets of
                its parameters and compared with the breakpoints its
                documentation states; arguments are deep-copied before the
                call and compared afterwards (argument mutation), and the call
                is repeated with the same argument objects.
* concurrency   'conc' shards (vf/c19_conc.py): a fresh 2-50 channel Env is used
                for the first time by 3-4 threads at once (barrier) under yield
                injection on Env._envgen_format; every thread's result and the
                format asked again afterwards must equal the model's.
* signals       'sig' shards (vf/c19_ugen.py): the class "envelope written inside
                a SynthDef graph function with unit generator outputs in its
                fields" - synth controls of every rate, array controls (one
                element or the whole field), outputs of other units, arithmetic
                on them, placed in levels, times, curves (scalar, per segment,
                per channel in nested entries, next to names and numbers),
                release / loop node, offset and in the parameters of every
                standard constructor.  The format lists must hold the identical
                signal object at the documented position (a signal among the
                curves: shape 5 and the signal as curvature); the definition
                bytes are decoded (vf/scgf.py) and the unit graph is evaluated
                by an independent interpreter under two assignments of numbers
                to the parameters, so every EnvGen / IEnvGen input must
                evaluate to the model encoding under the same assignment.
* re-use        'reuse' shards (vf/c19_reuse.py): one Env object (from Env(...)
                or a standard constructor) through a history of uses, public
                changes (duration setter, range / exprange / curverange, copy,
                attribute assignment) and RE-SPECIFICATIONS that change the
                segment count by assigning new levels / times / curves / nodes
                in every order; expected arrays are the model's encoding of the
                ASSIGNED values and a fresh Env built from them; intermediate
                objects are used only when consistent (one duration per
                segment); the originals of copies are re-checked at the end.
* independence  'indep' shards (vf/c19_reuse.py, run_indep): the class
                "envelopes built with DEFAULTED arguments" - Env() with levels
                and / or times left out or None, every standard constructor
                with no or few arguments.  One object A is changed IN PLACE
                (item / slice assignment, append, insert, extend, +=, pop, del,
                sort, reverse, clear + extend on A.levels / A.times / A.curves,
                the other attributes brought to the new segment count); a
                second object of the same or another defaulted recipe built
                BEFORE (encoded or not, optionally with an attribute
                re-assigned its own value) and one built AFTER must encode and
                evaluate as the model says for their own arguments and the
                documented defaults; A must encode as its changed lists say.
"""

import copy

from vf.common import iter_cases, case_rng, h64, split, short_tb, tb_sites

LEVEL = 'exploration'
RULE = ("seeded random envelope specifications: 2-12 levels (any sign / positive "
        "/ negative / non-negative classes so that exp, sqr and cub stay in their "
        "documented domain), times scalar / shorter / equal with zero-length "
        "segments, curves by documented name, number, mixed list, shorter list, "
        "release and loop nodes, 18% multichannel (nested per-channel entries in "
        "levels, times and curves - names, numbers, mixed); pairs / xyc points "
        "unsorted, with several points on one time (rises and drops) and mixed "
        "curve kinds on one point; 20 evaluation times per "
        "envelope at, between, before, after breakpoints; every 4th envelope is "
        "also compiled into a SynthDef and decoded; constructor calls with random "
        "parameter subsets.  Non-trivial: at least two segments and (wrapped "
        "times or wrapped/mixed curves or a release/loop node); distinct = hash "
        "of the argument lists.  sig shards: the same specifications / constructor "
        "calls with unit generator outputs (controls of kr / ir / tr / lagged "
        "rate, array controls element-wise or as a whole field, LFNoise0.kr, "
        "channels of In.kr, arithmetic on controls; 25% re-use of a signal in "
        "several positions) placed in 1-5 of the fields levels / times / curves "
        "/ nodes / offset or in 1-all constructor parameters, built inside a "
        "SynthDef graph function with EnvGen.kr/ar (Env object or its format "
        "tuples, signals also in gate / scale / bias / time-scale) and "
        "IEnvGen.kr; non-trivial: at least one signal and (constructor or two "
        "segments).  reuse shards: a start object (70% Env(...) of the "
        "sign-agnostic class, 30% a standard constructor with random "
        "parameters) and 3-10 steps, 62% uses (both formats, control input, "
        "_at, EnvGen / IEnvGen definition) and 38% changes, a third of which "
        "are re-specifications: new segment count (45% more, 40% fewer, 15% "
        "the same), new levels and one duration per new segment always, new "
        "curves 55% (name, number, list per new segment, shorter list, list "
        "of the old count, nested entry), new release / loop node 40% / 20%, "
        "assigned in a random order with uses between the assignments where "
        "the object is consistent; non-trivial: uses of both layouts.  indep "
        "shards: changed object and other object from the defaulted recipes "
        "(36% Env without levels, 14% Env(levels) without times, 8% "
        "Env.step(), 42% a standard constructor with 0-2 arguments; the other "
        "object 65% the same recipe), 70% with an earlier other object (half "
        "of them encoded before the change, half re-assigned an attribute's "
        "own value after it), the changed object encoded before the change "
        "50%; 1-3 in-place list operations (70% include levels); non-trivial: "
        "an earlier object exists or the change precedes the first encoding")
ASSUMPTIONS = [
    "vf/model_env.py (EnvGen array layout, server shape numbers 0-8, -99 for "
    "absent nodes) and vf/scgf.py are the trusted base",
    "float tolerance: encodings 1e-12 relative; evaluated values 1e-9 of the "
    "largest level (1e-6 when a cubed segment is present: the cube root is "
    "specified with the single precision constant 0.3333333); definition bytes "
    "float32 nearest",
    "levels/curvatures restricted to the documented domain of each shape",
    "sig shards: the interpreter of decoded unit graphs in vf/c19_ugen.py "
    "(control units read the parameter table at their special index; "
    "BinaryOpUGen special 0 + / 1 - / 2 * / 4 /, UnaryOpUGen 0 neg, MulAdd, "
    "Sum3, Sum4; every other unit is a leaf) is trusted; identity of a signal "
    "in the definition is decided by equal values under two assignments of "
    "numbers (defaults and random) within 1e-9, documented constructor "
    "arithmetic within 1e-5 (constants are float32)",
    "reuse shards: the public attributes levels, times, curves, release_node, "
    "loop_node, offset of an existing Env may be assigned (the class computes "
    "its server formats lazily from them and invalidates them on assignment); "
    "the envelope an object stands for after a series of assignments is the "
    "one a fresh Env(levels, times, curves, release_node, loop_node, offset) "
    "of the assigned values stands for.  While `times` does not hold exactly "
    "one duration per segment of `levels` (or a curves list is longer than "
    "the segment count) the object is an inconsistent intermediate: encoding "
    "or evaluating it may raise or give any array and is never requested; "
    "only the assignments themselves must succeed, keep the assigned value "
    "and leave the list they are given unchanged.  Assigned `times` are "
    "always complete lists (wrapping of times is documented for the "
    "constructor's parameter; a scalar or shorter list assigned later is not "
    "in the domain), assigned `curves` may be scalar or shorter (wrapped "
    "when the envelope is encoded)",
    "indep shards: the defaults of Env are levels [0, 1, 0], times [1, 1] "
    "(the triangle of the class documentation and of the signature), curves "
    "'lin', no nodes, offset 0; the attribute lists of an Env belong to that "
    "object (the lists handed to a constructor are deep copies made by the "
    "harness, so no aliasing is introduced by the caller; copy.copy and the "
    "derived envelopes of range / exprange / curverange are NOT part of these "
    "histories - a shallow copy shares lists by definition); an in-place "
    "change of an attribute list takes effect at the next encoding that is "
    "computed, i.e. immediately when the object was never encoded or "
    "evaluated, otherwise after any public attribute has been assigned "
    "(which drops the cached formats); Env.step() (defaults not documented) "
    "is compared with what an equal call gave before the change",
]
MIN_COUNTERS = {
    'encodings_compared': 300, 'at_values_checked': 3000,
    'at_exact_breakpoint_checks': 300, 'at_inside_checks': 500,
    'at_after_checks': 200, 'envgen_defs_decoded': 50,
    'ctor_breakpoints_compared': 200, 'ctor_argument_snapshots': 300,
    'enc_multichannel': 100, 'enc_nested_curves_with_name': 30,
    'ctor_points_equal_times': 50, 'ctor_points_drop': 20,
    'ctor_points_same_point_mixed_curves': 5,
    'ctor_calls_with_list_parameter': 100, 'enc_single_level': 20,
    'enc_with_offset': 100,
    'reuse_histories': 500, 'reuse_envgen_side_checks': 300,
    'reuse_interpolation_side_checks': 200, 'reuse_at_checks': 500,
    'reuse_defs_decoded': 200,
    'reuse_respec_final_checks': 1500, 'reuse_respec_grow': 800,
    'reuse_respec_shrink': 400, 'reuse_respec_same-count': 200,
    'reuse_respec_segment_count_changed': 1200,
    'reuse_respec_of_encoded_object': 1000,
    'reuse_respec_intermediate_uses': 800,
    'reuse_respec_inconsistent_intermediates': 1500,
    'reuse_respec_consistent_intermediates': 1200,
    **{'reuse_respec_order_' + o: 150 for o in (
        'levels-times-curves', 'levels-curves-times', 'times-levels-curves',
        'times-curves-levels', 'curves-levels-times', 'curves-times-levels')},
    'reuse_respec_order_levels-times': 300,
    'reuse_respec_order_times-levels': 300,
    'reuse_start_standard_constructor': 600,
    'reuse_originals_rechecked': 800,
    'indep_histories': 2000, 'indep_changed_objects_checked': 1500,
    'indep_later_objects_checked': 2000,
    'indep_earlier_objects_checked': 1200,
    'indep_earlier_objects_first_encoded_after_change': 500,
    'indep_earlier_objects_reassigned_own_value': 500,
    'indep_changed_before_first_encoding': 800,
    'indep_reassigned_own_value': 300,
    'indep_levels_count_changed': 800, 'indep_cross_recipe': 500,
    'indep_recipe_Env-default-levels': 600,
    'indep_recipe_Env-default-times': 200, 'indep_recipe_step': 100,
    **{'indep_recipe_' + c: 40 for c in (
        'triangle', 'sine', 'perc', 'linen', 'cutoff', 'adsr', 'dadsr',
        'asr')},
    **{'indep_inplace_levels_' + o: 80 for o in (
        'setitem', 'slice-same', 'reverse', 'append', 'insert', 'extend',
        'iadd', 'slice-grow', 'clear-extend', 'pop', 'del', 'slice-shrink',
        'sort')},
    'indep_inplace_times_setitem': 100, 'indep_inplace_curves_setitem': 20,
    'conc_rounds': 300, 'conc_rounds_with_overlapping_builders': 100,
    'conc_cache_rechecks': 300, 'conc_injected_yields': 100,
    'sig_cases': 1500, 'sig_defs_decoded': 1000, 'sig_defs_agreeing': 800,
    'sig_envgen_given_format_tuples': 100,
    'sig_envgen_formats_compared': 1000,
    'sig_interpolation_formats_compared': 1000,
    'sig_format_signal_positions': 5000, 'sig_format_signal_curve': 800,
    'sig_format_signal_level': 800, 'sig_format_signal_time': 800,
    'sig_format_signal_release-node': 100, 'sig_format_signal_loop-node': 100,
    'sig_format_signal_offset': 50, 'sig_format_signal_initial-level': 100,
    'sig_format_derived_positions': 500,
    'sig_def_signal_inputs_evaluated': 10000,
    'sig_def_derived_inputs_evaluated': 1000,
    'sig_def_constant_inputs_evaluated': 20000,
    'sig_cases_with_curves_nested': 50, 'sig_cases_with_levels_nested': 30,
    'sig_cases_with_times_nested': 20, 'sig_cases_with_curves_whole': 10,
    'sig_cases_with_levels_whole': 10,
    'sig_cases_with_control': 500, 'sig_cases_with_scalar-control': 100,
    'sig_cases_with_trigger-control': 100, 'sig_cases_with_lagged-control': 100,
    'sig_cases_with_array-control-element': 100,
    'sig_cases_with_unit-output': 100,
    'sig_cases_with_multi-output-channel': 100,
    'sig_cases_with_arithmetic-on-control': 100,
    **{'sig_cases_' + c: 20 for c in (
        'Env', 'triangle', 'sine', 'perc', 'linen', 'cutoff', 'adsr', 'dadsr',
        'asr', 'step', 'pairs', 'xyc')},
}

CTORS = ['triangle', 'sine', 'perc', 'linen', 'cutoff', 'adsr', 'dadsr', 'asr',
         'step', 'pairs', 'xyc']


def plan(tier, seed):
    if tier == 'quick':
        n_env, n_ctor, parts, secs = 30000, 12000, 6, 40
    else:
        # 16 shards in all (6 env, 2 ctor, 3 reuse, 1 indep, 2 conc, 2 sig): one wave of
        # the driver's 16 workers, so the wall time is one time budget
        n_env, n_ctor, parts, secs = 7_000_000, 2_000_000, 6, 560
    shards = []
    for p, (f, n) in enumerate(split(n_env, parts)):
        shards.append({'name': f'env{p}', 'mode': 'nrt', 'kind': 'env',
                       'first_case': f, 'n': n, 'secs': secs,
                       'hard_timeout': secs + 120})
    for p, (f, n) in enumerate(split(n_ctor, 2)):
        shards.append({'name': f'ctor{p}', 'mode': 'nrt', 'kind': 'ctor',
                       'first_case': f, 'n': n, 'secs': secs,
                       'hard_timeout': secs + 120})
    # one Env object through a history of uses and parameter changes
    # (vf/c19_reuse.py)
    n_reuse, rparts = (9000, 3) if tier == 'quick' else (1_500_000, 3)
    for p, (f, n) in enumerate(split(n_reuse, rparts)):
        shards.append({'name': f'reuse{p}', 'mode': 'nrt', 'kind': 'reuse',
                       'first_case': f, 'n': n, 'secs': secs,
                       'hard_timeout': secs + 120})
    # independence of objects built with defaulted arguments (run_indep)
    n_ind, iparts = (5000, 1) if tier == 'quick' else (1_000_000, 1)
    for p, (f, n) in enumerate(split(n_ind, iparts)):
        shards.append({'name': f'indep{p}', 'mode': 'nrt', 'kind': 'indep',
                       'first_case': f, 'n': n, 'secs': secs,
                       'hard_timeout': secs + 120})
    # one multichannel Env shared by threads that use it for the first time
    # at once (vf/c19_conc.py)
    n_conc, cparts, csecs = (6000, 2, 12) if tier == 'quick' else \
        (600_000, 2, 300)
    for p, (f, n) in enumerate(split(n_conc, cparts)):
        shards.append({'name': f'conc{p}', 'mode': 'nrt', 'kind': 'conc',
                       'first_case': f, 'n': n, 'secs': csecs,
                       'nthreads': 3 + p % 2, 'p_yield': 0.25,
                       'hard_timeout': csecs + 120})
    # envelope fields given as unit generator outputs inside a graph function
    # (vf/c19_ugen.py)
    n_sig, sparts = (12000, 4) if tier == 'quick' else (900_000, 2)
    for p, (f, n) in enumerate(split(n_sig, sparts)):
        shards.append({'name': f'sig{p}', 'mode': 'nrt', 'kind': 'sig',
                       'first_case': f, 'n': n, 'secs': secs,
                       'hard_timeout': secs + 120})
    return shards


def _refused_shape(exc):
    """'sqr' etc. from ValueError("invalid Env shape 'sqr'"), else None."""
    import re
    from vf import model_env
    if isinstance(exc, ValueError):
        m = re.search(r"invalid Env shape '([a-z]+)'", str(exc))
        if m and m.group(1) in model_env.SHAPE_NUMBERS:
            return m.group(1)
    return None


def _site(exc):
    s = tb_sites(exc)
    return f'{s[-1][0]}:{s[-1][1]}' if s else 'harness'


def _fmt_to_lists(fmt):
    return [list(t) for t in fmt]


def run_shard(spec, acc):
    kind = spec['shard']['kind']
    if kind == 'reuse':
        from vf.c19_reuse import run_reuse
        run_reuse(spec, acc)
    elif kind == 'indep':
        from vf.c19_reuse import run_indep
        run_indep(spec, acc)
    elif kind == 'conc':
        from vf.c19_conc import run_conc
        run_conc(spec, acc)
    elif kind == 'sig':
        from vf.c19_ugen import run_sig
        run_sig(spec, acc)
    elif kind == 'env':
        run_env(spec, acc)
    else:
        run_ctor(spec, acc)


# ---------------------------------------------------------------------------

def run_env(spec, acc):
    from vf import model_env as M, c19_gen as G, scgf
    from sc3.synth.envelope import Env
    from sc3.synth.synthdef import SynthDef
    from sc3.synth.ugens import EnvGen, Out

    for i in iter_cases(spec):
        rng = case_rng(spec['seed'], 'C19', 'env', i)
        a = G.gen_env_args(rng, single_ok=True)
        call = dict(levels=a['levels'], times=a['times'], curves=a['curves'],
                    release_node=a['release_node'], loop_node=a['loop_node'])
        snap = copy.deepcopy(call)
        # "offset: only applies in IEnvGen": the EnvGen encoding must not
        # depend on it; client-side evaluation with an offset is not judged
        # (the documentation leaves open whether _at counts from the offset)
        offset = rng.choice([0, 0, 0, 0, 0, 1, 0.5, -2.0])
        if offset:
            call['offset'] = offset
        nseg = len(a['levels']) - 1
        wrapped_t = isinstance(a['times'], list) and len(a['times']) < nseg
        wrapped_c = isinstance(a['curves'], list) and len(a['curves']) < nseg
        mixed_c = isinstance(a['curves'], list) and \
            len({type(c) for c in a['curves']}) > 1
        nodes = a['release_node'] is not None or a['loop_node'] is not None
        acc.case(h64(repr(snap)), nontrivial=nseg >= 2 and (
            wrapped_t or wrapped_c or mixed_c or nodes))
        witness = {'case': i, 'args': snap, 'offset': offset}
        # --- encoding
        try:
            env = Env(**call)
            call.pop('offset', None)
            got = _fmt_to_lists(env._envgen_format())
        except Exception as e:
            call.pop('offset', None)
            name = _refused_shape(e)
            if name:
                acc.count('documented_shape_refused')
                acc.violation(f'C19/shape-name-refused/{name}',
                              dict(witness, error=str(e)))
            else:
                acc.violation(
                    f'C19/encode-raises/{type(e).__name__}/{_site(e)}',
                    dict(witness, tb=short_tb(e)))
            continue
        exp = M.encode(**snap)
        acc.count('encodings_compared')
        acc.count('segments_encoded', nseg * len(exp))
        if wrapped_t: acc.count('enc_times_wrapped')
        if wrapped_c: acc.count('enc_curves_wrapped')
        if mixed_c: acc.count('enc_curves_mixed')
        if not isinstance(a['times'], list): acc.count('enc_times_scalar')
        if a['release_node'] is None: acc.count('enc_release_absent')
        if a['loop_node'] is not None: acc.count('enc_loop_present')
        if a['multichannel']: acc.count('enc_multichannel')
        if isinstance(a['curves'], list):
            nested = [c for c in a['curves'] if isinstance(c, list)]
            if nested:
                acc.count('enc_nested_curves')
                if any(isinstance(x, str) for c in nested for x in c):
                    acc.count('enc_nested_curves_with_name')
        for ch in exp:
            for s in range(nseg):
                acc.count(f'shape_{ch[6 + 4 * s]}')
        diff = M.same_arrays(got, exp)
        if diff:
            detail = diff
            if not isinstance(a['times'], list) and a['times'] == 0 \
                    and diff == 'time':
                detail = 'time/scalar-zero-replaced-by-default'
            acc.violation(f'C19/encoding-differs/{detail}',
                          dict(witness, got=got, expected=exp))
            continue
        if call != snap:
            acc.violation('C19/env-mutates-arguments',
                          dict(witness, after=call))
        if acc.want_sample() and nseg >= 2 and (wrapped_t or wrapped_c):
            acc.sample({'case': i, 'args': snap, 'encoding': got})
        if offset:
            acc.count('enc_with_offset')
        if nseg == 0:
            acc.count('enc_single_level')
            continue
        if a['release_node'] is not None and not 0 <= a['release_node'] < nseg:
            acc.count('enc_node_outside_segments')
        # --- evaluation
        if not offset:
            check_at(acc, M, G, rng, env, exp, a, witness)
        # --- definition bytes
        if i % 4 == 0:
            check_def(acc, M, scgf, SynthDef, EnvGen, Out, Env, snap, exp,
                      witness)


def check_at(acc, M, G, rng, env, exp, a, witness):
    nch = len(exp)
    per_ch = []
    for arr in exp:
        l0, segs = M.segments(arr)
        per_ch.append(([l0] + [s[0] for s in segs], [s[1] for s in segs],
                       [s[2] for s in segs]))
    # evaluation times are drawn around the breakpoints of a random channel
    bp = M.breakpoints(per_ch[rng.randrange(nch)][1])
    ts = G.gen_eval_times(rng, bp, a['dyadic'])
    for t in ts:
        try:
            v = env._at(t)
        except Exception as e:
            acc.violation(f'C19/at-raises/{type(e).__name__}/{_site(e)}',
                          dict(witness, t=t, tb=short_tb(e)))
            return
        vs = v if nch > 1 else [v]
        if not isinstance(vs, list) or len(vs) != nch:
            acc.violation('C19/at/channel-count', dict(witness, t=t, value=v))
            return
        for c in range(nch):
            levels, durs, shapes = per_ch[c]
            acc.count('at_values_checked')
            if t < 0:
                acc.count('at_before_start')
                if not M.is_number(vs[c]) or vs[c] != vs[c]:
                    acc.violation('C19/at/before-start-not-a-number',
                                  dict(witness, t=t, value=vs[c]))
                continue
            exact = a['dyadic'] and M.exact_times(durs, [t])
            ok, where, why = M.value_ok(levels, durs, shapes, t, vs[c], exact)
            if where == 'breakpoint' and exact:
                acc.count('at_exact_breakpoint_checks')
            elif where == 'breakpoint':
                acc.count('at_rounded_breakpoint_checks')
            elif where == 'inside':
                acc.count('at_inside_checks')
            elif where == 'after':
                acc.count('at_after_checks')
            else:
                acc.count('at_' + where.replace('-', '_') + '_checks')
            if not ok:
                seg = _segment_shape(M, durs, shapes, t)
                key = f'C19/at/{where}/shape-{seg}'
                if _cubed_negative(M, levels, durs, shapes, t):
                    key = 'C19/at/cubed-segment-with-negative-level'
                acc.violation(
                    key,
                    dict(witness, channel=c, t=t, value=vs[c], allowed=why,
                         levels=levels, durs=durs, shapes=shapes, exact=exact))


def _segment_shape(M, durs, shapes, t):
    """Shape number of the segment that contains / starts at t ('end' after)."""
    bp = M.breakpoints(durs)
    for j in range(len(durs)):
        if t < bp[j + 1]:
            return shapes[j]
    return 'end'


def _cubed_negative(M, levels, durs, shapes, t):
    """Is t in / at the start of a cubed segment that has a negative level?"""
    bp = M.breakpoints(durs)
    for j in range(len(durs)):
        if t < bp[j + 1]:
            return shapes[j] == 7 and min(levels[j], levels[j + 1]) < 0
    return False


_DEFN = [0]


def check_def(acc, M, scgf, SynthDef, EnvGen, Out, Env, snap, exp, witness):
    # float32 overflow is outside the domain of a definition file
    try:
        env = Env(**copy.deepcopy(snap))
        rate = 'kr' if _DEFN[0] % 2 == 0 else 'ar'
        _DEFN[0] += 1
        done = _DEFN[0] % 3

        def graph():
            if rate == 'kr':
                Out.kr(0, EnvGen.kr(env, 1.0, 1.0, 0.0, 1.0, done))
            else:
                Out.ar(0, EnvGen.ar(env, 1.0, 1.0, 0.0, 1.0, done))
        data = SynthDef('c19', graph).as_bytes()
    except Exception as e:
        acc.violation(f'C19/envgen-build-raises/{type(e).__name__}/{_site(e)}',
                      dict(witness, tb=short_tb(e)))
        return
    try:
        d = scgf.parse(data)
    except scgf.ScgfError as e:
        acc.violation('C19/envgen-bytes-malformed', dict(witness, error=str(e)))
        return
    acc.count('envgen_defs_decoded')
    units = [u for u in d.units if u.cls == 'EnvGen']
    if len(units) != len(exp):
        acc.violation('C19/envgen-bytes-differ/channel-count',
                      dict(witness, units=[repr(u) for u in units]))
        return
    head = [1.0, 1.0, 0.0, 1.0, float(done)]
    for u, arr in zip(units, exp):
        if any(x[0] != 'c' for x in u.inputs):
            acc.violation('C19/envgen-bytes-differ/non-constant-input',
                          dict(witness, unit=repr(u)))
            return
        vals = [d.constants[x[1]] for x in u.inputs]
        want = [M.f32(x) for x in head + arr]
        acc.count('envgen_inputs_compared', len(vals))
        if len(vals) != len(want):
            acc.violation('C19/envgen-bytes-differ/input-count',
                          dict(witness, got=vals, expected=want))
            return
        for k, (g, w) in enumerate(zip(vals, want)):
            if g != w and abs(g - w) > 2.0 ** -23 * abs(w):
                col = ('gate', 'level-scale', 'level-bias', 'time-scale',
                       'done-action')[k] if k < 5 else M.column_name(k - 5)
                acc.violation(f'C19/envgen-bytes-differ/{col}',
                              dict(witness, index=k, got=vals, expected=want))
                return


# ---------------------------------------------------------------------------

def _list_product(name, kw):
    """adsr / dadsr with a list-valued (multichannel) peak or sustain level:
    the one place where a constructor multiplies two of its parameters."""
    return name in ('adsr', 'dadsr') and (
        isinstance(kw.get('peak_level'), list)
        or isinstance(kw.get('sustain_level'), list))


def _list_bias(name, kw):
    """adsr / dadsr with a list-valued (multichannel) bias: "bias : list |
    float | int - DC offset", i.e. channel c is offset by bias[c]."""
    return name in ('adsr', 'dadsr') and isinstance(kw.get('bias'), list)


def run_ctor(spec, acc):
    from vf import model_env as M, c19_gen as G
    from sc3.synth.envelope import Env

    for i in iter_cases(spec):
        rng = case_rng(spec['seed'], 'C19', 'ctor', i)
        name, kw, exp = G.gen_ctor_call(rng)
        snap = copy.deepcopy(kw)
        acc.case(h64((name, repr(snap))), nontrivial=len(kw) > 0)
        acc.count(f'ctor_calls_{name}')
        if any(isinstance(v, list) for k, v in kw.items()
               if k not in ('levels', 'times', 'pairs', 'xyc', 'curves')):
            acc.count('ctor_calls_with_list_parameter')
        witness = {'case': i, 'constructor': name, 'kwargs': snap}
        ctor = getattr(Env, name)
        try:
            env = ctor(**kw)
            got = _fmt_to_lists(env._envgen_format())
        except Exception as e:
            shape = _refused_shape(e)
            if shape:
                acc.count('documented_shape_refused')
                acc.violation(f'C19/shape-name-refused/{shape}',
                              dict(witness, error=str(e)))
            elif _list_bias(name, kw):
                acc.violation(f'C19/constructor-list-bias/{name}',
                              dict(witness, tb=short_tb(e)))
            elif _list_product(name, kw):
                acc.violation(f'C19/constructor-list-parameter/{name}',
                              dict(witness, tb=short_tb(e)))
            else:
                acc.violation(
                    f'C19/constructor-raises/{name}/{type(e).__name__}',
                    dict(witness, tb=short_tb(e)))
            continue
        # argument mutation, then the same call again with the same objects
        acc.count('ctor_argument_snapshots')
        mutated = kw != snap
        if mutated:
            acc.violation(f'C19/constructor-mutates-arguments/{name}',
                          dict(witness, after=kw))
        try:
            env2 = ctor(**kw)
            got2 = _fmt_to_lists(env2._envgen_format())
            if not mutated and got2 != got:
                acc.violation(f'C19/constructor-not-repeatable/{name}',
                              dict(witness, first=got, second=got2))
        except Exception as e:
            if not mutated:
                acc.violation(
                    f'C19/constructor-second-call-raises/{name}/'
                    f'{type(e).__name__}', dict(witness, tb=short_tb(e)))
            else:
                acc.count('second_call_failed_after_mutation')
        # documented breakpoints
        want = M.encode(exp['levels'], exp['times'], exp['curves'],
                        None if exp['release_node'] == 'unchecked'
                        else exp['release_node'], exp['loop_node'])
        if exp['release_node'] == 'unchecked':
            for w, g in zip(want, got):
                if len(g) > 2:
                    w[2] = g[2]
            acc.count('ctor_release_node_unchecked')
        acc.count('ctor_breakpoints_compared')
        for flag in ('equal_times', 'drop', 'same_point_mixed_curves'):
            if exp.get(flag):
                acc.count('ctor_points_' + flag)
        diff = M.same_arrays(got, want)
        if diff:
            key = f'C19/constructor-breakpoints/{name}/{diff}'
            if _list_product(name, kw):
                key = f'C19/constructor-list-parameter/{name}'
            if _list_bias(name, kw):
                key = f'C19/constructor-list-bias/{name}'
            acc.violation(key, dict(witness, got=got, expected=want))
            continue
        if acc.want_sample() and name in ('adsr', 'pairs', 'dadsr'):
            acc.sample({'case': i, 'constructor': name, 'kwargs': snap,
                        'encoding': got})
        # point constructors: the envelope passes through the given points
        if name in ('pairs', 'xyc'):
            xs = exp['xs']
            shapes = [M.shape_of(c)[0] for c in exp['curves']]
            for k, x in enumerate(xs):
                try:
                    v = env._at(x)
                except Exception as e:
                    acc.violation(
                        f'C19/at-raises/{type(e).__name__}/{_site(e)}',
                        dict(witness, t=x, tb=short_tb(e)))
                    break
                t = x - xs[0]
                exact = exp['dyadic'] and M.exact_times(exp['times'], [t, x])
                ok, where, why = M.value_ok(exp['levels'], exp['times'],
                                            shapes, t, v, exact)
                acc.count('ctor_points_checked')
                if not ok:
                    acc.violation(f'C19/constructor-at/{name}/{where}',
                                  dict(witness, x=x, value=v, allowed=why))
                    break
